/-
  UffReal.lean — the UFF formulas at the `ℝ` instance of `ElemFun` (Mathlib `Real.sqrt/log/cos/sin`), the whole-table
  facts (closed by `decide +kernel` on the GENERATED table) and the analytic lemmas behind C18's real-valued theorems.
  This is the only C18 file that imports Mathlib analysis modules.
-/
import Mathlib.Analysis.Complex.ExponentialBounds
import Mathlib.Analysis.SpecialFunctions.Pow.Real
import Mathlib.Analysis.Real.Pi.Bounds
import Mathlib.Tactic.Ring
import Mathlib.Tactic.Linarith
import Mathlib.Tactic.FieldSimp
import Mathlib.Tactic.Positivity
import Mathlib.Tactic.NormNum
import MofunModel.Model.UffFormula
import MofunModel.Proofs.UffLogicLemmas

namespace Mofun.Uff
open ElemFun Mofun.Generated

/-! ### the real instance -/

noncomputable instance instElemFunReal : ElemFun ℝ where
  toAdd := inferInstance
  toSub := inferInstance
  toMul := inferInstance
  toDiv := inferInstance
  toNeg := inferInstance
  ofRat q := (q : ℝ)
  ofDec d := ((d.toRat : ℚ) : ℝ)
  sqrt := Real.sqrt
  log := Real.log
  cos := Real.cos
  sin := Real.sin
  pi := Real.pi
  rpow x y := x ^ y
  npow x n := x ^ n

@[simp] theorem ofRat_real (q : ℚ) : (ofRat q : ℝ) = (q : ℝ) := rfl
@[simp] theorem ofDec_real (d : Dec) : (ofDec d : ℝ) = ((d.toRat : ℚ) : ℝ) := rfl
@[simp] theorem sqrt_real (x : ℝ) : ElemFun.sqrt x = Real.sqrt x := rfl
@[simp] theorem log_real (x : ℝ) : ElemFun.log x = Real.log x := rfl
@[simp] theorem cos_real (x : ℝ) : ElemFun.cos x = Real.cos x := rfl
@[simp] theorem sin_real (x : ℝ) : ElemFun.sin x = Real.sin x := rfl
@[simp] theorem pi_real : (ElemFun.pi : ℝ) = Real.pi := rfl
@[simp] theorem rpow_real (x y : ℝ) : ElemFun.rpow x y = x ^ y := rfl
@[simp] theorem npow_real (x : ℝ) (n : ℕ) : ElemFun.npow x n = x ^ n := rfl

/-- the decimal constants of the formulas, as real numbers -/
theorem dec_val (m : Int) (e : Nat) : (dec m e : ℝ) = (m : ℝ) / (10 : ℝ) ^ e := by
  simp [dec, Dec.toRat]

theorem int_val (n : Nat) : (int n : ℝ) = (n : ℝ) := by simp [int]

/-! ### whole-table facts -/

/-- column `k` of a table row as an exact rational (0 when absent) -/
def colQ (row : List Dec) (k : Nat) : Rat := (row.getD k ⟨0, 0⟩).toRat

/-- what the formulas need of one table row: 11 columns; r1, x1, D1, Z1 > 0 (divided by / under a root / logarithm-free
    but required positive); 0 < θ0 ≤ 180; Vi, Uj ≥ 0 (under a square root); 1 ≤ Xi ≤ 15 (the electronegativity
    correction stays below the sum of the radii, see `bondCore_pos`) -/
def rowOk (r : List Dec) : Bool :=
  r.length == 11 && decide (0 < colQ r 0) && decide (0 < colQ r 1) && decide (colQ r 1 ≤ 180)
    && decide (0 < colQ r 2) && decide (0 < colQ r 3) && decide (0 < colQ r 5) && decide (0 ≤ colQ r 6)
    && decide (0 ≤ colQ r 7) && decide (1 ≤ colQ r 8) && decide (colQ r 8 ≤ 15)

/-- **table fact** — every row of the generated UFF4MOF table satisfies `rowOk` -/
theorem rows_ok : uff4mof.all (fun p => rowOk p.2) = true := by decide +kernel

/-- **table fact** — the centres whose equilibrium angle is below 90° are exactly these -/
theorem acute_centres :
    (uff4mof.filter (fun p => decide (colQ p.2 1 < 90))).map (·.1) = ["H_b"] := by decide +kernel

/-- **table fact** — no equilibrium angle is 0 and only `cosine/periodic` centres sit at 180 -/
theorem fourier_centres_lt_180 :
    uff4mof.all (fun p => angleStyle (colQ p.2 1) p.1 != .fourier || decide (colQ p.2 1 < 180)) = true := by
  decide +kernel

theorem lookup_mem {β} (tbl : List (String × β)) (k : String) (v : β) (h : lookup tbl k = some v) :
    (k, v) ∈ tbl := by
  induction tbl with
  | nil => simp [lookup] at h
  | cons p rest ih =>
    obtain ⟨k', v'⟩ := p
    unfold lookup at h
    by_cases hk : k' = k
    · simp only [hk, if_true, Option.some.injEq] at h
      subst hk; subst h; simp
    · simp only [hk, if_false] at h
      exact List.mem_cons_of_mem _ (ih h)

/-- a key of the table (a "UFF atom type") -/
def IsType (a : String) : Prop := (lookup uff4mof a).isSome = true

instance (a : String) : Decidable (IsType a) := by unfold IsType; infer_instance

/-- column `k` of a table row as a real number -/
noncomputable def colR (row : List Dec) (k : Nat) : ℝ := ((colQ row k : ℚ) : ℝ)

/-- the facts of `rowOk`, over `ℝ` -/
structure RowOkR (row : List Dec) : Prop where
  len : row.length = 11
  r1_pos : 0 < colR row 0
  th_pos : 0 < colR row 1
  th_le : colR row 1 ≤ 180
  x1_pos : 0 < colR row 2
  D1_pos : 0 < colR row 3
  Z1_pos : 0 < colR row 5
  Vi_nonneg : 0 ≤ colR row 6
  Uj_nonneg : 0 ≤ colR row 7
  Xi_ge : 1 ≤ colR row 8
  Xi_le : colR row 8 ≤ 15

theorem rowOkR_of_ok (row : List Dec) (h : rowOk row = true) : RowOkR row := by
  unfold rowOk at h
  simp only [Bool.and_eq_true, decide_eq_true_eq, beq_iff_eq] at h
  obtain ⟨⟨⟨⟨⟨⟨⟨⟨⟨⟨hlen, h0⟩, h1⟩, h1'⟩, h2⟩, h3⟩, h5⟩, h6⟩, h7⟩, h8⟩, h8'⟩ := h
  exact { len := hlen
          r1_pos := by unfold colR; exact_mod_cast h0
          th_pos := by unfold colR; exact_mod_cast h1
          th_le := by unfold colR; exact_mod_cast h1'
          x1_pos := by unfold colR; exact_mod_cast h2
          D1_pos := by unfold colR; exact_mod_cast h3
          Z1_pos := by unfold colR; exact_mod_cast h5
          Vi_nonneg := by unfold colR; exact_mod_cast h6
          Uj_nonneg := by unfold colR; exact_mod_cast h7
          Xi_ge := by unfold colR; exact_mod_cast h8
          Xi_le := by unfold colR; exact_mod_cast h8' }

/-- every type of the generated table has a complete row with the facts of `rowOk` -/
theorem rowOkR_of_lookup (a : String) (row : List Dec) (h : lookup uff4mof a = some row) : RowOkR row := by
  have hm := lookup_mem _ _ _ h
  have := List.all_eq_true.mp rows_ok (a, row) hm
  exact rowOkR_of_ok row this

/-- `UFF4MOF[a][k]` for a key of the table and an existing column -/
theorem colA_some {α} [ElemFun α] (tbl : List (String × List Dec)) (a : String) (row : List Dec) (k : Nat)
    (h : lookup tbl a = some row) (hk : k < row.length) :
    colA (α := α) tbl a k = .ok (ofDec (row.getD k ⟨0, 0⟩)) := by
  unfold colA
  rw [h]
  simp only [List.getElem?_eq_getElem hk, List.getD_eq_getElem?_getD, Option.getD_some]

/-- `UFF4MOF[a][k]` at the real instance, for a type of the table -/
theorem colA_real (tbl : List (String × List Dec)) (a : String) (row : List Dec) (k : Nat)
    (h : lookup tbl a = some row) (hk : k < row.length) :
    colA (α := ℝ) tbl a k = .ok (colR row k) := by
  rw [colA_some tbl a row k h hk]; rfl

theorem colA_none {α} [ElemFun α] (tbl : List (String × List Dec)) (a : String) (k : Nat) (h : lookup tbl a = none) :
    colA (α := α) tbl a k = .error "error:KeyError" := by
  unfold colA; rw [h]

theorem isType_iff (a : String) : IsType a ↔ ∃ row, lookup uff4mof a = some row := by
  unfold IsType; exact Option.isSome_iff_exists

/-! ### analytic lemmas -/

/-- `(√x − √y)² ≤ |x − y|` for non-negative `x`, `y` -/
theorem sq_sqrt_sub_le_abs (x y : ℝ) (hx : 0 ≤ x) (hy : 0 ≤ y) :
    (Real.sqrt x - Real.sqrt y) ^ 2 ≤ |x - y| := by
  have hsx := Real.sq_sqrt hx
  have hsy := Real.sq_sqrt hy
  have h0x := Real.sqrt_nonneg x
  have h0y := Real.sqrt_nonneg y
  rcases le_total y x with hxy | hxy
  · rw [abs_of_nonneg (by linarith)]
    have : Real.sqrt y ≤ Real.sqrt x := Real.sqrt_le_sqrt hxy
    nlinarith [mul_nonneg h0y (sub_nonneg.mpr this)]
  · rw [abs_of_nonpos (by linarith)]
    have : Real.sqrt x ≤ Real.sqrt y := Real.sqrt_le_sqrt hxy
    nlinarith [mul_nonneg h0x (sub_nonneg.mpr this)]

/-- bond length and force constant are positive for positive radii and charges, electronegativities in [1, 15] and
    every bond order in (0, 2] -/
theorem bondCore_pos (ri zi xi rj zj xj b : ℝ) (hri : 0 < ri) (hrj : 0 < rj) (hzi : 0 < zi) (hzj : 0 < zj)
    (hxi : 1 ≤ xi) (hxi' : xi ≤ 15) (hxj : 1 ≤ xj) (hxj' : xj ≤ 15) (hb : 0 < b) (hb2 : b ≤ 2) :
    0 < (bondCore ri zi xi rj zj xj b).1 ∧ 0 < (bondCore ri zi xi rj zj xj b).2 := by
  have hrij : 0 < (bondCore ri zi xi rj zj xj b).2 := by
    unfold bondCore
    simp only [sqrt_real, log_real, npow_real, dec_val]
    have hD : 0 < xi * ri + xj * rj := by positivity
    have hs := sq_sqrt_sub_le_abs xi xj (by linarith) (by linarith)
    have hlog : Real.log b ≤ Real.log 2 := Real.log_le_log hb hb2
    have hl2 := Real.log_two_lt_d9
    have hsum : 0 < ri + rj := by linarith
    -- the electronegativity correction
    have hEN : ri * rj * (Real.sqrt xi - Real.sqrt xj) ^ 2 / (xi * ri + xj * rj) ≤ (9 / 10) * (ri + rj) := by
      rw [div_le_iff₀ hD]
      have h1 : ri * rj * (Real.sqrt xi - Real.sqrt xj) ^ 2 ≤ ri * rj * |xi - xj| :=
        mul_le_mul_of_nonneg_left hs (by positivity)
      have h2 : ri * rj * |xi - xj| ≤ (9 / 10) * (ri + rj) * (xi * ri + xj * rj) := by
        have hrr : 0 < ri * rj := by positivity
        have hsq1 : 0 < ri * ri := by positivity
        have hsq2 : 0 < rj * rj := by positivity
        rcases le_total xj xi with hxy | hxy
        · rw [abs_of_nonneg (by linarith)]
          nlinarith [mul_pos hsq1 (by linarith : (0 : ℝ) < xi), mul_pos hsq2 (by linarith : (0 : ℝ) < xj),
            mul_nonneg hrr.le (by linarith : (0 : ℝ) ≤ 19 * xj - xi)]
        · rw [abs_of_nonpos (by linarith)]
          nlinarith [mul_pos hsq1 (by linarith : (0 : ℝ) < xi), mul_pos hsq2 (by linarith : (0 : ℝ) < xj),
            mul_nonneg hrr.le (by linarith : (0 : ℝ) ≤ 19 * xi - xj)]
      linarith
    -- the bond-order correction
    have hBO : (1332 : ℝ) / 10 ^ 4 * (ri + rj) * Real.log b ≤ (924 / 10000) * (ri + rj) := by
      have : Real.log b ≤ 0.6931471808 := by linarith
      have h3 : (1332 : ℝ) / 10 ^ 4 * (ri + rj) * Real.log b ≤ (1332 : ℝ) / 10 ^ 4 * (ri + rj) * 0.6931471808 :=
        mul_le_mul_of_nonneg_left this (by positivity)
      nlinarith
    push_cast
    nlinarith
  refine ⟨?_, hrij⟩
  have : (bondCore ri zi xi rj zj xj b).1 =
      (66412 : ℝ) / 10 ^ 2 * zi * zj / ((bondCore ri zi xi rj zj xj b).2) ^ 3 / 2 := by
    unfold bondCore
    simp only [sqrt_real, log_real, npow_real, dec_val, int_val]
    push_cast
    ring
  rw [this]
  positivity

/-! ### bonds -/

theorem bondCore_symm (ri zi chii rj zj chij bo : ℝ) :
    bondCore ri zi chii rj zj chij bo = bondCore rj zj chij ri zi chii bo := by
  unfold bondCore
  simp only [sqrt_real, log_real, npow_real]
  refine Prod.ext ?_ ?_ <;> simp only <;> ring

theorem bondOrderOf_symm (a1 a2 : String) (bo : Option Rat) (rules : List (List String × Rat)) :
    bondOrderOf a1 a2 bo rules = bondOrderOf a2 a1 bo rules := by
  unfold bondOrderOf guessBondOrder
  cases bo with
  | some b => rfl
  | none => simp only [ruleLookup_symm a1 a2, defaultBondOrder_symm a1 a2]

/-- `bond_params` on two types of the table: the lookups succeed; the only error left is `log` of a
    non-positive bond order -/
theorem bondParams_real (a1 a2 : String) (bo : Option Rat) (rules : List (List String × Rat))
    (row1 row2 : List Dec) (h1 : lookup uff4mof a1 = some row1) (h2 : lookup uff4mof a2 = some row2) :
    bondParams (α := ℝ) uff4mof a1 a2 bo rules =
      if bondOrderOf a1 a2 bo rules ≤ 0 then .error "error:ValueError"
      else .ok (bondCore (colR row1 0) (colR row1 5) (colR row1 8) (colR row2 0) (colR row2 5) (colR row2 8)
                  ((bondOrderOf a1 a2 bo rules : ℚ) : ℝ)) := by
  have l1 := (rowOkR_of_lookup a1 row1 h1).len
  have l2 := (rowOkR_of_lookup a2 row2 h2).len
  unfold bondParams
  rw [colA_real _ a1 row1 0 h1 (by omega), colA_real _ a1 row1 5 h1 (by omega), colA_real _ a1 row1 8 h1 (by omega),
    colA_real _ a2 row2 0 h2 (by omega), colA_real _ a2 row2 5 h2 (by omega), colA_real _ a2 row2 8 h2 (by omega)]
  rfl

/-- `bond_params` when one of the two strings is not a type of the table -/
theorem bondParams_keyError {α} [ElemFun α] (a1 a2 : String) (bo : Option Rat) (rules : List (List String × Rat))
    (h : lookup uff4mof a1 = none ∨ lookup uff4mof a2 = none) :
    bondParams (α := α) uff4mof a1 a2 bo rules = .error "error:KeyError" := by
  unfold bondParams
  rcases h with h | h
  · rw [colA_none _ a1 0 h]; rfl
  · cases h1 : lookup uff4mof a1 with
    | none => rw [colA_none _ a1 0 h1]; rfl
    | some row1 =>
      have l1 := (rowOkR_of_lookup a1 row1 h1).len
      rw [colA_none _ a2 0 h, colA_some _ a1 row1 0 h1 (by omega), colA_some _ a1 row1 5 h1 (by omega),
        colA_some _ a1 row1 8 h1 (by omega)]
      rfl

theorem bondParams_symm (a1 a2 : String) (bo : Option Rat) (rules : List (List String × Rat)) :
    bondParams (α := ℝ) uff4mof a1 a2 bo rules = bondParams (α := ℝ) uff4mof a2 a1 bo rules := by
  cases h1 : lookup uff4mof a1 with
  | none => rw [bondParams_keyError a1 a2 bo rules (Or.inl h1), bondParams_keyError a2 a1 bo rules (Or.inr h1)]
  | some row1 =>
    cases h2 : lookup uff4mof a2 with
    | none => rw [bondParams_keyError a1 a2 bo rules (Or.inr h2), bondParams_keyError a2 a1 bo rules (Or.inl h2)]
    | some row2 =>
      rw [bondParams_real a1 a2 bo rules row1 row2 h1 h2, bondParams_real a2 a1 bo rules row2 row1 h2 h1,
        bondOrderOf_symm a2 a1, bondCore_symm]

/-- on two types of the table `bond_params` can only fail with the `log` domain error -/
theorem bondParams_error (a1 a2 : String) (bo : Option Rat) (rules : List (List String × Rat))
    (row1 row2 : List Dec) (h1 : lookup uff4mof a1 = some row1) (h2 : lookup uff4mof a2 = some row2) (e : String)
    (h : bondParams (α := ℝ) uff4mof a1 a2 bo rules = .error e) : e = "error:ValueError" := by
  rw [bondParams_real a1 a2 bo rules row1 row2 h1 h2] at h
  split at h
  · injection h with h; exact h.symm
  · cases h

theorem defaultBondOrder_range (a1 a2 : String) :
    defaultBondOrder a1 a2 = 1 ∨ defaultBondOrder a1 a2 = 3 / 2 ∨ defaultBondOrder a1 a2 = 2 := by
  unfold defaultBondOrder
  split
  · exact Or.inl rfl
  · split
    · exact Or.inr (Or.inr rfl)
    · split
      · exact Or.inr (Or.inl rfl)
      · exact Or.inl rfl

/-- positivity of both bond parameters for two types of the table and a bond order in (0, 2] -/
theorem bondParams_pos (a1 a2 : String) (bo : Option Rat) (rules : List (List String × Rat))
    (h1 : IsType a1) (h2 : IsType a2)
    (hb : 0 < bondOrderOf a1 a2 bo rules) (hb2 : bondOrderOf a1 a2 bo rules ≤ 2) :
    ∃ k r : ℝ, bondParams (α := ℝ) uff4mof a1 a2 bo rules = .ok (k, r) ∧ 0 < k ∧ 0 < r := by
  obtain ⟨row1, h1⟩ := (isType_iff a1).mp h1
  obtain ⟨row2, h2⟩ := (isType_iff a2).mp h2
  have f1 := rowOkR_of_lookup a1 row1 h1
  have f2 := rowOkR_of_lookup a2 row2 h2
  rw [bondParams_real a1 a2 bo rules row1 row2 h1 h2, if_neg (not_le.mpr hb)]
  have hbR : (0 : ℝ) < ((bondOrderOf a1 a2 bo rules : ℚ) : ℝ) := by exact_mod_cast hb
  have hb2R : ((bondOrderOf a1 a2 bo rules : ℚ) : ℝ) ≤ 2 := by exact_mod_cast hb2
  have := bondCore_pos (colR row1 0) (colR row1 5) (colR row1 8) (colR row2 0) (colR row2 5) (colR row2 8) _
    f1.r1_pos f2.r1_pos f1.Z1_pos f2.Z1_pos f1.Xi_ge f1.Xi_le f2.Xi_ge f2.Xi_le hbR hb2R
  exact ⟨_, _, rfl, this.1, this.2⟩

/-! ### pair coefficients -/

theorem ljFactor_pos : 0 < (ljFactor : ℝ) := by
  unfold ljFactor
  simp only [rpow_real, int_val]
  exact Real.rpow_pos_of_pos (by norm_num) _

theorem pairCoeffs_pos (a : String) (h : IsType a) :
    ∃ eps sigma : ℝ, pairCoeffs (α := ℝ) uff4mof a = .ok (eps, sigma) ∧ 0 < eps ∧ 0 < sigma := by
  obtain ⟨row, h⟩ := (isType_iff a).mp h
  have f := rowOkR_of_lookup a row h
  unfold pairCoeffs
  rw [colA_real _ a row 2 h (by have := f.len; omega), colA_real _ a row 3 h (by have := f.len; omega)]
  exact ⟨_, _, rfl, f.D1_pos, mul_pos f.x1_pos ljFactor_pos⟩

/-! ### angles -/

theorem col_some (a : String) (row : List Dec) (k : Nat) (h : lookup uff4mof a = some row) (hk : k < row.length) :
    col uff4mof a k = some (colQ row k) := by
  unfold col colQ
  rw [h]
  simp only [List.getElem?_eq_getElem hk, List.getD_eq_getElem?_getD, Option.getD_some, Option.map_some]

theorem rikOf_symm (t r1 r2 : ℝ) : rikOf t r1 r2 = rikOf t r2 r1 := by
  unfold rikOf
  simp only [sqrt_real, npow_real, cos_real]
  congr 1
  ring

theorem angleK_symm (t r1 r2 zi zk : ℝ) : angleK t r1 r2 zi zk = angleK t r2 r1 zk zi := by
  unfold angleK
  rw [rikOf_symm t r1 r2]
  simp only [npow_real, cos_real]
  ring

theorem angleCore_symm (style : AngleStyle) (t r1 r2 zi zk : ℝ) :
    angleCore style t r1 r2 zi zk = angleCore style t r2 r1 zk zi := by
  unfold angleCore
  rw [angleK_symm t r1 r2 zi zk]

/-- `angle_params` on three types of the table, in terms of the two `bond_params` calls -/
theorem angleParams_real (a1 a2 a3 : String) (bo1 bo2 : Option Rat) (rules : List (List String × Rat))
    (row1 row2 row3 : List Dec) (h1 : lookup uff4mof a1 = some row1) (h2 : lookup uff4mof a2 = some row2)
    (h3 : lookup uff4mof a3 = some row3) :
    angleParams (α := ℝ) uff4mof a1 a2 a3 bo1 bo2 rules =
      (bondParams (α := ℝ) uff4mof a1 a2 bo1 rules).bind fun b1 =>
      (bondParams (α := ℝ) uff4mof a2 a3 bo2 rules).bind fun b2 =>
        .ok (angleCore (angleStyle (colQ row2 1) a2) (colR row2 1) b1.2 b2.2 (colR row1 5) (colR row3 5)) := by
  have l1 := (rowOkR_of_lookup a1 row1 h1).len
  have l2 := (rowOkR_of_lookup a2 row2 h2).len
  have l3 := (rowOkR_of_lookup a3 row3 h3).len
  unfold angleParams
  rw [colA_real _ a2 row2 1 h2 (by omega), col_some a2 row2 1 h2 (by omega), colA_real _ a1 row1 5 h1 (by omega),
    colA_real _ a3 row3 5 h3 (by omega)]
  rfl

theorem angleParams_symm (a1 a2 a3 : String) (bo1 bo2 : Option Rat) (rules : List (List String × Rat))
    (h1 : IsType a1) (h2 : IsType a2) (h3 : IsType a3) :
    angleParams (α := ℝ) uff4mof a1 a2 a3 bo1 bo2 rules = angleParams (α := ℝ) uff4mof a3 a2 a1 bo2 bo1 rules := by
  obtain ⟨row1, h1⟩ := (isType_iff a1).mp h1
  obtain ⟨row2, h2⟩ := (isType_iff a2).mp h2
  obtain ⟨row3, h3⟩ := (isType_iff a3).mp h3
  rw [angleParams_real a1 a2 a3 bo1 bo2 rules row1 row2 row3 h1 h2 h3,
    angleParams_real a3 a2 a1 bo2 bo1 rules row3 row2 row1 h3 h2 h1,
    bondParams_symm a3 a2 bo2 rules, bondParams_symm a2 a1 bo1 rules]
  cases hb1 : bondParams (α := ℝ) uff4mof a1 a2 bo1 rules with
  | error e1 =>
    have he1 := bondParams_error a1 a2 bo1 rules row1 row2 h1 h2 e1 hb1
    cases hb2 : bondParams (α := ℝ) uff4mof a2 a3 bo2 rules with
    | error e2 =>
      have he2 := bondParams_error a2 a3 bo2 rules row2 row3 h2 h3 e2 hb2
      subst he1; subst he2; rfl
    | ok b2 => rfl
  | ok b1 =>
    cases hb2 : bondParams (α := ℝ) uff4mof a2 a3 bo2 rules with
    | error e2 => rfl
    | ok b2 =>
      show Except.ok _ = Except.ok _
      rw [angleCore_symm]

/-- the angle in radians lies in [π/2, π] for 90 ≤ θ0 ≤ 180 -/
theorem theta0rad_range (t : ℝ) (h90 : 90 ≤ t) (h180 : t ≤ 180) :
    Real.pi / 2 ≤ theta0rad t ∧ theta0rad t ≤ Real.pi := by
  unfold theta0rad
  simp only [int_val, pi_real]
  have hp := Real.pi_pos
  constructor
  · rw [div_le_div_iff₀ (by norm_num) (by norm_num)]; push_cast; nlinarith
  · rw [div_le_iff₀ (by norm_num)]; push_cast; nlinarith

theorem theta0rad_open (t : ℝ) (h0 : 0 < t) (h180 : t < 180) :
    0 < theta0rad t ∧ theta0rad t < Real.pi := by
  unfold theta0rad
  simp only [int_val, pi_real]
  have hp := Real.pi_pos
  constructor
  · push_cast; positivity
  · rw [div_lt_iff₀ (by norm_num)]; push_cast; nlinarith

/-- the angle force constant is positive when cos θ0 ≤ 0 -/
theorem angleK_pos (t rij rjk zi zk : ℝ) (h90 : 90 ≤ t) (h180 : t ≤ 180) (hrij : 0 < rij) (hrjk : 0 < rjk)
    (hzi : 0 < zi) (hzk : 0 < zk) : 0 < angleK t rij rjk zi zk := by
  obtain ⟨hlo, hhi⟩ := theta0rad_range t h90 h180
  have hc : Real.cos (theta0rad t) ≤ 0 :=
    Real.cos_nonpos_of_pi_div_two_le_of_le hlo (by have := Real.pi_pos; linarith)
  have hc1 : Real.cos (theta0rad t) ^ 2 ≤ 1 := Real.cos_sq_le_one _
  unfold angleK rikOf
  simp only [sqrt_real, npow_real, cos_real, dec_val, int_val]
  set c := Real.cos (theta0rad t) with hcdef
  have hrr : 0 < rij * rjk := mul_pos hrij hrjk
  have hin : 0 < rij ^ 2 + rjk ^ 2 - (2 : ℕ) * rij * rjk * c := by
    push_cast
    nlinarith [mul_nonneg hrr.le (neg_nonneg.mpr hc), sq_pos_of_pos hrij, sq_pos_of_pos hrjk]
  have hrik : 0 < Real.sqrt (rij ^ 2 + rjk ^ 2 - (2 : ℕ) * rij * rjk * c) := Real.sqrt_pos.mpr hin
  have hsq : Real.sqrt (rij ^ 2 + rjk ^ 2 - (2 : ℕ) * rij * rjk * c) ^ 2 =
      rij ^ 2 + rjk ^ 2 - (2 : ℕ) * rij * rjk * c := Real.sq_sqrt hin.le
  rw [hsq]
  have hbr : 0 < (3 : ℕ) * rij * rjk * ((1 : ℕ) - c ^ 2) - (rij ^ 2 + rjk ^ 2 - (2 : ℕ) * rij * rjk * c) * c := by
    push_cast
    push_cast at hin
    rcases eq_or_lt_of_le hc with h0 | hneg
    · rw [h0]; nlinarith
    · nlinarith [mul_pos hin (neg_pos.mpr hneg), mul_nonneg hrr.le (sub_nonneg.mpr hc1)]
  positivity

/-- sin θ0 ≠ 0 for 0 < θ0 < 180: the fourier coefficients divide by a non-zero number -/
theorem fourier_denominator_pos (t : ℝ) (h0 : 0 < t) (h180 : t < 180) :
    0 < (int 4 : ℝ) * npow (ElemFun.sin (theta0rad t)) 2 := by
  obtain ⟨hlo, hhi⟩ := theta0rad_open t h0 h180
  have := Real.sin_pos_of_pos_of_lt_pi hlo hhi
  simp only [int_val, npow_real, sin_real]
  positivity

theorem angleCore_style (style : AngleStyle) (t r1 r2 zi zk : ℝ) : (angleCore style t r1 r2 zi zk).style = style := by
  unfold angleCore
  cases style <;> rfl

theorem angleCore_k (style : AngleStyle) (t r1 r2 zi zk : ℝ) :
    (angleCore style t r1 r2 zi zk).k = angleK t r1 r2 zi zk := by
  unfold angleCore
  cases style <;> rfl

/-- `angle_params` on three types with admissible bond orders: defined, documented style, `kijk` in closed form -/
theorem angleParams_ok (a1 a2 a3 : String) (bo1 bo2 : Option Rat) (rules : List (List String × Rat))
    (row2 : List Dec) (h1 : IsType a1) (h2 : lookup uff4mof a2 = some row2) (h3 : IsType a3)
    (hb1 : 0 < bondOrderOf a1 a2 bo1 rules ∧ bondOrderOf a1 a2 bo1 rules ≤ 2)
    (hb2 : 0 < bondOrderOf a2 a3 bo2 rules ∧ bondOrderOf a2 a3 bo2 rules ≤ 2) :
    ∃ res : AngleResult ℝ, angleParams (α := ℝ) uff4mof a1 a2 a3 bo1 bo2 rules = .ok res
      ∧ res.style = angleStyle (colQ row2 1) a2
      ∧ (90 ≤ colQ row2 1 → 0 < res.k) := by
  obtain ⟨row1, h1'⟩ := (isType_iff a1).mp h1
  obtain ⟨row3, h3'⟩ := (isType_iff a3).mp h3
  have h2t : IsType a2 := (isType_iff a2).mpr ⟨row2, h2⟩
  obtain ⟨k1, r1, e1, _, hr1⟩ := bondParams_pos a1 a2 bo1 rules h1 h2t hb1.1 hb1.2
  obtain ⟨k2, r2, e2, _, hr2⟩ := bondParams_pos a2 a3 bo2 rules h2t h3 hb2.1 hb2.2
  have f1 := rowOkR_of_lookup a1 row1 h1'
  have f2 := rowOkR_of_lookup a2 row2 h2
  have f3 := rowOkR_of_lookup a3 row3 h3'
  rw [angleParams_real a1 a2 a3 bo1 bo2 rules row1 row2 row3 h1' h2 h3', e1, e2]
  refine ⟨_, rfl, angleCore_style _ _ _ _ _ _, ?_⟩
  intro h90
  rw [angleCore_k]
  have h90R : (90 : ℝ) ≤ colR row2 1 := by unfold colR; exact_mod_cast h90
  exact angleK_pos _ _ _ _ _ h90R f2.th_le hr1 hr2 f1.Z1_pos f3.Z1_pos

/-! ### torsions -/

theorem torsionCaseWith_symm (mg : List String) (a1 a2 a3 a4 : String) :
    torsionCaseWith mg a4 a3 a2 a1 = (torsionCaseWith mg a1 a2 a3 a4).reverse := by
  unfold torsionCaseWith
  exact torsionOfClasses_symm _ _ _ _

theorem torsionCase_symm (a1 a2 a3 a4 : String) :
    torsionCase a4 a3 a2 a1 = (torsionCase a1 a2 a3 a4).reverse :=
  torsionCaseWith_symm _ _ _ _ _

/-- on the generated table a column lookup can only fail with KeyError -/
theorem colA_error (a : String) (k : Nat) (hk : k < 11) (e : String)
    (h : colA (α := ℝ) uff4mof a k = .error e) : e = "error:KeyError" := by
  cases hl : lookup uff4mof a with
  | none => rw [colA_none _ a k hl] at h; injection h with h; exact h.symm
  | some row =>
    have l := (rowOkR_of_lookup a row hl).len
    rw [colA_some _ a row k hl (by omega)] at h
    cases h

/-- two column lookups commute inside the `Except` monad (both can only fail with the same error) -/
theorem colA_bind_swap {γ : Type} (a b : String) (k : Nat) (hk : k < 11) (f : ℝ → ℝ → Except String γ) :
    (colA (α := ℝ) uff4mof a k >>= fun x => colA (α := ℝ) uff4mof b k >>= fun y => f x y) =
    (colA (α := ℝ) uff4mof b k >>= fun y => colA (α := ℝ) uff4mof a k >>= fun x => f x y) := by
  cases ha : colA (α := ℝ) uff4mof a k with
  | error ea =>
    cases hb : colA (α := ℝ) uff4mof b k with
    | error eb =>
      rw [colA_error a k hk ea ha, colA_error b k hk eb hb]; rfl
    | ok y => rfl
  | ok x =>
    cases hb : colA (α := ℝ) uff4mof b k with
    | error eb => rfl
    | ok y => rfl

theorem sp2Barrier_symm (u v b m : ℝ) : sp2Barrier u v b m = sp2Barrier v u b m := by
  unfold sp2Barrier
  rw [mul_comm u v]

/-- `dihedral_params` gives the same answer (parameters, `None`, or the same exception) from either end,
    for ALL strings -/
theorem dihedralParams_symm (a1 a2 a3 a4 : String) (mult : Nat) (bo : Option Rat) (rules : List (List String × Rat)) :
    dihedralParams (α := ℝ) uff4mof a1 a2 a3 a4 mult bo rules =
      dihedralParams (α := ℝ) uff4mof a4 a3 a2 a1 mult bo rules := by
  unfold dihedralParams
  rw [torsionCase_symm a1 a2 a3 a4, bondOrderOf_symm a3 a2]
  cases torsionCase a1 a2 a3 a4 with
  | sp3sp3 =>
    simp only [TorsionCase.reverse]
    rw [colA_bind_swap a3 a2 6 (by omega)]
    simp only [mul_comm]
  | sp3sp3Group6 o1 o2 =>
    simp only [TorsionCase.reverse]
    rw [colA_bind_swap a3 a2 6 (by omega)]
    simp only [mul_comm (group6V o2)]
  | sp2sp2 =>
    simp only [TorsionCase.reverse]
    rw [colA_bind_swap a3 a2 7 (by omega)]
    simp only [sp2Barrier_symm]
  | mixedSp2Sp2 => rfl
  | mixedOxygen =>
    simp only [TorsionCase.reverse]
    rw [colA_bind_swap a3 a2 7 (by omega)]
    simp only [sp2Barrier_symm]
  | mixedDefault => rfl
  | undefined => rfl
  | unsupported => rfl

/-- `dihedral_params` on table types, multiplicity ≥ 1 and a positive bond order: parameters with the case's
    `d` and `n` / `None` / the "unsupported" exception, exactly as the kind of the case says -/
theorem dihedralParams_outcome (a1 a2 a3 a4 : String) (mult : Nat) (bo : Option Rat) (rules : List (List String × Rat))
    (h2 : IsType a2) (h3 : IsType a3) (hm : 1 ≤ mult) (hb : 0 < bondOrderOf a2 a3 bo rules) :
    match (torsionCase a1 a2 a3 a4).kind with
    | .defined => ∃ (k : ℝ) (d : Int) (n : Nat),
        dihedralParams (α := ℝ) uff4mof a1 a2 a3 a4 mult bo rules = .ok (some (k, d, n))
        ∧ (torsionCase a1 a2 a3 a4).d = some d ∧ (torsionCase a1 a2 a3 a4).n = some n
    | .undefined => dihedralParams (α := ℝ) uff4mof a1 a2 a3 a4 mult bo rules = .ok none
    | .unsupported => dihedralParams (α := ℝ) uff4mof a1 a2 a3 a4 mult bo rules = .error "unsupported" := by
  obtain ⟨row2, h2⟩ := (isType_iff a2).mp h2
  obtain ⟨row3, h3⟩ := (isType_iff a3).mp h3
  have l2 := (rowOkR_of_lookup a2 row2 h2).len
  have l3 := (rowOkR_of_lookup a3 row3 h3).len
  have hm0 : (mult == 0) = false := by
    cases mult with
    | zero => omega
    | succ n => rfl
  have hb0 : ¬ bondOrderOf a2 a3 bo rules ≤ 0 := not_le.mpr hb
  unfold dihedralParams
  rw [colA_real _ a2 row2 6 h2 (by omega), colA_real _ a3 row3 6 h3 (by omega),
    colA_real _ a2 row2 7 h2 (by omega), colA_real _ a3 row3 7 h3 (by omega)]
  simp only [hm0, hb0, if_false, Bool.false_eq_true]
  cases torsionCase a1 a2 a3 a4 with
  | sp3sp3 => exact ⟨_, _, _, rfl, rfl, rfl⟩
  | sp3sp3Group6 o1 o2 => exact ⟨_, _, _, rfl, rfl, rfl⟩
  | sp2sp2 => exact ⟨_, _, _, rfl, rfl, rfl⟩
  | mixedSp2Sp2 => exact ⟨_, _, _, rfl, rfl, rfl⟩
  | mixedOxygen => exact ⟨_, _, _, rfl, rfl, rfl⟩
  | mixedDefault => exact ⟨_, _, _, rfl, rfl, rfl⟩
  | undefined => rfl
  | unsupported => rfl

/-! ### the acute centres (θ0 < 90°): positivity of the angle constant for bond orders in [1, 2] -/

/-- sharper row facts used only for the acute centres: 1/100 ≤ r1 ≤ 3, 2 ≤ Xi ≤ 12, θ0 ≥ 83, and a centre with
    θ0 < 90 has r1 ≥ 0.4 -/
def rowOk2 (r : List Dec) : Bool :=
  decide (1 / 100 ≤ colQ r 0) && decide (colQ r 0 ≤ 3) && decide (2 ≤ colQ r 8) && decide (colQ r 8 ≤ 12)
    && decide (83 ≤ colQ r 1) && (decide (90 ≤ colQ r 1) || decide (4 / 10 ≤ colQ r 0))

/-- **table fact** — every row of the generated table satisfies `rowOk2` -/
theorem rows_ok2 : uff4mof.all (fun p => rowOk2 p.2) = true := by decide +kernel

structure RowOk2R (row : List Dec) : Prop where
  r1_ge : 1 / 100 ≤ colR row 0
  r1_le : colR row 0 ≤ 3
  Xi_ge : 2 ≤ colR row 8
  Xi_le : colR row 8 ≤ 12
  th_ge : 83 ≤ colR row 1
  acute_r1 : colR row 1 < 90 → 4 / 10 ≤ colR row 0

theorem rowOk2R_of_lookup (a : String) (row : List Dec) (h : lookup uff4mof a = some row) : RowOk2R row := by
  have := List.all_eq_true.mp rows_ok2 (a, row) (lookup_mem _ _ _ h)
  unfold rowOk2 at this
  simp only [Bool.and_eq_true, Bool.or_eq_true, decide_eq_true_eq] at this
  obtain ⟨⟨⟨⟨⟨h0, h0'⟩, h8⟩, h8'⟩, h1⟩, hac⟩ := this
  refine { r1_ge := ?_, r1_le := ?_, Xi_ge := ?_, Xi_le := ?_, th_ge := ?_, acute_r1 := ?_ }
  · unfold colR; have := (Rat.cast_le (K := ℝ)).mpr h0; push_cast at this; linarith
  · unfold colR; exact_mod_cast h0'
  · unfold colR; exact_mod_cast h8
  · unfold colR; exact_mod_cast h8'
  · unfold colR; exact_mod_cast h1
  · intro hlt
    rcases hac with h90 | hr
    · exfalso
      have : (90 : ℝ) ≤ colR row 1 := by unfold colR; exact_mod_cast h90
      linarith
    · unfold colR; have := (Rat.cast_le (K := ℝ)).mpr hr; push_cast at this; linarith

/-- `(√x − √y)² ≤ 4.21` for electronegativities in [2, 12] -/
theorem sq_sqrt_sub_le_const (x y : ℝ) (hx : 2 ≤ x) (hx' : x ≤ 12) (hy : 2 ≤ y) (hy' : y ≤ 12) :
    (Real.sqrt x - Real.sqrt y) ^ 2 ≤ 421 / 100 := by
  have lo : ∀ z : ℝ, 2 ≤ z → (14142 : ℝ) / 10000 ≤ Real.sqrt z := fun z hz =>
    Real.le_sqrt_of_sq_le (by norm_num; linarith)
  have hi : ∀ z : ℝ, z ≤ 12 → Real.sqrt z ≤ (34642 : ℝ) / 10000 := fun z hz =>
    Real.sqrt_le_iff.mpr ⟨by norm_num, by norm_num; linarith⟩
  have h1 := lo x hx
  have h2 := hi x hx'
  have h3 := lo y hy
  have h4 := hi y hy'
  have hd : |Real.sqrt x - Real.sqrt y| ≤ 205 / 100 := by
    rw [abs_le]; constructor <;> linarith
  have : (Real.sqrt x - Real.sqrt y) ^ 2 = |Real.sqrt x - Real.sqrt y| ^ 2 := (sq_abs _).symm
  rw [this]
  have h0 := abs_nonneg (Real.sqrt x - Real.sqrt y)
  nlinarith

/-- two-sided bound of the bond length for bond orders in [1, 2] and electronegativities in [2, 12] -/
theorem bondCore_len_bounds (ri zi xi rj zj xj b : ℝ) (hri : 0 < ri) (hrj : 0 < rj)
    (hxi : 2 ≤ xi) (hxi' : xi ≤ 12) (hxj : 2 ≤ xj) (hxj' : xj ≤ 12) (hb : 1 ≤ b) (hb2 : b ≤ 2) :
    (38 / 100) * (ri + rj) ≤ (bondCore ri zi xi rj zj xj b).2 ∧ (bondCore ri zi xi rj zj xj b).2 ≤ ri + rj := by
  unfold bondCore
  simp only [sqrt_real, log_real, npow_real, dec_val]
  have hD : 0 < xi * ri + xj * rj := by positivity
  have hs := sq_sqrt_sub_le_const xi xj hxi hxi' hxj hxj'
  have hs0 : 0 ≤ (Real.sqrt xi - Real.sqrt xj) ^ 2 := sq_nonneg _
  have hlog : Real.log b ≤ Real.log 2 := Real.log_le_log (by linarith) hb2
  have hlog0 : 0 ≤ Real.log b := Real.log_nonneg hb
  have hl2 := Real.log_two_lt_d9
  have hsum : 0 < ri + rj := by linarith
  have hrr : 0 < ri * rj := mul_pos hri hrj
  have hEN0 : 0 ≤ ri * rj * (Real.sqrt xi - Real.sqrt xj) ^ 2 / (xi * ri + xj * rj) := by positivity
  have hEN : ri * rj * (Real.sqrt xi - Real.sqrt xj) ^ 2 / (xi * ri + xj * rj) ≤ (5263 / 10000) * (ri + rj) := by
    rw [div_le_iff₀ hD]
    have h1 : ri * rj * (Real.sqrt xi - Real.sqrt xj) ^ 2 ≤ ri * rj * (421 / 100) :=
      mul_le_mul_of_nonneg_left hs hrr.le
    have h2 : 2 * (ri + rj) ≤ xi * ri + xj * rj := by nlinarith
    have h3 : 4 * (ri * rj) ≤ (ri + rj) * (ri + rj) := by nlinarith [sq_nonneg (ri - rj)]
    nlinarith [mul_le_mul_of_nonneg_left h2 hsum.le]
  have hBO : (1332 : ℝ) / 10 ^ 4 * (ri + rj) * Real.log b ≤ (924 / 10000) * (ri + rj) := by
    have : Real.log b ≤ 0.6931471808 := by linarith
    have h3 : (1332 : ℝ) / 10 ^ 4 * (ri + rj) * Real.log b ≤ (1332 : ℝ) / 10 ^ 4 * (ri + rj) * 0.6931471808 :=
      mul_le_mul_of_nonneg_left this (by positivity)
    nlinarith
  have hBO0 : 0 ≤ (1332 : ℝ) / 10 ^ 4 * (ri + rj) * Real.log b := by positivity
  push_cast
  constructor <;> nlinarith

/-- for 83 ≤ θ0 < 90: 0 < cos θ0 ≤ 0.1225 -/
theorem cos_acute_bounds (t : ℝ) (h83 : 83 ≤ t) (h90 : t < 90) :
    0 < Real.cos (theta0rad t) ∧ Real.cos (theta0rad t) ≤ 1225 / 10000 := by
  have hp := Real.pi_pos
  have hp2 := Real.pi_lt_d2
  have hval : theta0rad t = t * Real.pi / 180 := by
    unfold theta0rad
    simp only [int_val, pi_real]
    push_cast
    ring
  have hlt : theta0rad t < Real.pi / 2 := by rw [hval]; nlinarith
  have hgt : 0 < theta0rad t := by rw [hval]; positivity
  constructor
  · exact Real.cos_pos_of_mem_Ioo ⟨by linarith, hlt⟩
  · rw [← Real.sin_pi_div_two_sub]
    have h0 : 0 ≤ Real.pi / 2 - theta0rad t := by linarith
    have := Real.sin_le h0
    have : Real.pi / 2 - theta0rad t ≤ 1225 / 10000 := by rw [hval]; nlinarith
    linarith

/-- the angle constant is positive for an acute centre with 0 < cos θ0 ≤ 0.1225 when the two bond lengths are
    within a factor 22 of each other -/
theorem angleK_pos_acute (t rij rjk zi zk : ℝ) (h83 : 83 ≤ t) (h90 : t < 90) (hrij : 0 < rij) (hrjk : 0 < rjk)
    (hzi : 0 < zi) (hzk : 0 < zk) (hr1 : rij ≤ 22 * rjk) (hr2 : rjk ≤ 22 * rij) : 0 < angleK t rij rjk zi zk := by
  obtain ⟨hc0, hc1⟩ := cos_acute_bounds t h83 h90
  unfold angleK rikOf
  simp only [sqrt_real, npow_real, cos_real, dec_val, int_val]
  set c := Real.cos (theta0rad t) with hcdef
  have hrr : 0 < rij * rjk := mul_pos hrij hrjk
  have hin : 0 < rij ^ 2 + rjk ^ 2 - (2 : ℕ) * rij * rjk * c := by
    push_cast
    nlinarith [sq_nonneg (rij - rjk), mul_pos hrr (by linarith : (0 : ℝ) < 1 - c)]
  have hrik : 0 < Real.sqrt (rij ^ 2 + rjk ^ 2 - (2 : ℕ) * rij * rjk * c) := Real.sqrt_pos.mpr hin
  have hsq : Real.sqrt (rij ^ 2 + rjk ^ 2 - (2 : ℕ) * rij * rjk * c) ^ 2 =
      rij ^ 2 + rjk ^ 2 - (2 : ℕ) * rij * rjk * c := Real.sq_sqrt hin.le
  rw [hsq]
  have hbr : 0 < (3 : ℕ) * rij * rjk * ((1 : ℕ) - c ^ 2) - (rij ^ 2 + rjk ^ 2 - (2 : ℕ) * rij * rjk * c) * c := by
    push_cast
    -- rij² + rjk² ≤ (485/22) rij rjk
    have hprod : 0 ≤ (22 * rjk - rij) * (22 * rij - rjk) := mul_nonneg (by linarith) (by linarith)
    have hsum : rij ^ 2 + rjk ^ 2 ≤ (485 / 22) * (rij * rjk) := by nlinarith
    have hc2 : c ^ 2 ≤ (1225 / 10000) ^ 2 := by nlinarith
    have h1 : c * (rij ^ 2 + rjk ^ 2) ≤ (1225 / 10000) * ((485 / 22) * (rij * rjk)) := by
      have := mul_le_mul hc1 hsum (by positivity) (by norm_num : (0 : ℝ) ≤ 1225 / 10000)
      linarith
    nlinarith [mul_pos hrr hc0, mul_nonneg hrr.le (sq_nonneg c)]
  positivity

/-- `angle_params` on three table types with bond orders in [1, 2]: defined, with a positive force constant —
    for EVERY centre of the table (obtuse centres by `angleK_pos`, acute ones by `angleK_pos_acute`) -/
theorem angleParams_pos (a1 a2 a3 : String) (bo1 bo2 : Option Rat) (rules : List (List String × Rat))
    (h1 : IsType a1) (h2 : IsType a2) (h3 : IsType a3)
    (hb1 : 1 ≤ bondOrderOf a1 a2 bo1 rules ∧ bondOrderOf a1 a2 bo1 rules ≤ 2)
    (hb2 : 1 ≤ bondOrderOf a2 a3 bo2 rules ∧ bondOrderOf a2 a3 bo2 rules ≤ 2) :
    ∃ res : AngleResult ℝ, angleParams (α := ℝ) uff4mof a1 a2 a3 bo1 bo2 rules = .ok res ∧ 0 < res.k := by
  obtain ⟨row2, h2'⟩ := (isType_iff a2).mp h2
  have hp1 : 0 < bondOrderOf a1 a2 bo1 rules := lt_of_lt_of_le (by decide) hb1.1
  have hp2 : 0 < bondOrderOf a2 a3 bo2 rules := lt_of_lt_of_le (by decide) hb2.1
  by_cases h90 : 90 ≤ colQ row2 1
  · obtain ⟨res, e, _, hk⟩ := angleParams_ok a1 a2 a3 bo1 bo2 rules row2 h1 h2' h3 ⟨hp1, hb1.2⟩ ⟨hp2, hb2.2⟩
    exact ⟨res, e, hk h90⟩
  · obtain ⟨row1, h1'⟩ := (isType_iff a1).mp h1
    obtain ⟨row3, h3'⟩ := (isType_iff a3).mp h3
    have f1 := rowOkR_of_lookup a1 row1 h1'
    have f2 := rowOkR_of_lookup a2 row2 h2'
    have f3 := rowOkR_of_lookup a3 row3 h3'
    have g1 := rowOk2R_of_lookup a1 row1 h1'
    have g2 := rowOk2R_of_lookup a2 row2 h2'
    have g3 := rowOk2R_of_lookup a3 row3 h3'
    have hlt : colR row2 1 < 90 := by
      have : colQ row2 1 < 90 := lt_of_not_ge h90
      unfold colR; exact_mod_cast this
    have hrc := g2.acute_r1 hlt
    have c1 : (1 : ℝ) ≤ ((bondOrderOf a1 a2 bo1 rules : ℚ) : ℝ) := by exact_mod_cast hb1.1
    have c1' : ((bondOrderOf a1 a2 bo1 rules : ℚ) : ℝ) ≤ 2 := by exact_mod_cast hb1.2
    have c2 : (1 : ℝ) ≤ ((bondOrderOf a2 a3 bo2 rules : ℚ) : ℝ) := by exact_mod_cast hb2.1
    have c2' : ((bondOrderOf a2 a3 bo2 rules : ℚ) : ℝ) ≤ 2 := by exact_mod_cast hb2.2
    rw [angleParams_real a1 a2 a3 bo1 bo2 rules row1 row2 row3 h1' h2' h3',
      bondParams_real a1 a2 bo1 rules row1 row2 h1' h2', bondParams_real a2 a3 bo2 rules row2 row3 h2' h3',
      if_neg (not_le.mpr hp1), if_neg (not_le.mpr hp2)]
    refine ⟨_, rfl, ?_⟩
    rw [angleCore_k]
    have B1 := bondCore_len_bounds (colR row1 0) (colR row1 5) (colR row1 8) (colR row2 0) (colR row2 5)
      (colR row2 8) _ f1.r1_pos f2.r1_pos g1.Xi_ge g1.Xi_le g2.Xi_ge g2.Xi_le c1 c1'
    have B2 := bondCore_len_bounds (colR row2 0) (colR row2 5) (colR row2 8) (colR row3 0) (colR row3 5)
      (colR row3 8) _ f2.r1_pos f3.r1_pos g2.Xi_ge g2.Xi_le g3.Xi_ge g3.Xi_le c2 c2'
    have a := g1.r1_ge; have a' := g1.r1_le; have b := g3.r1_ge; have b' := g3.r1_le; have c' := g2.r1_le
    exact angleK_pos_acute _ _ _ _ _ g2.th_ge hlt (by linarith [B1.1]) (by linarith [B2.1]) f1.Z1_pos f3.Z1_pos
      (by linarith [B1.2, B2.1]) (by linarith [B1.1, B2.2])

/-! ### bond and (obtuse-centre) angle positivity on the wide range 0 < BO ≤ 32 -/

/-- bond length and force constant are positive for positive radii and charges, electronegativities in [2, 12] and
    EVERY bond order in (0, 32]: the electronegativity correction is at most 0.5263 (ri + rj) and the bond-order
    correction at most 0.1332 · 5 ln 2 · (ri + rj) < 0.4617 (ri + rj) -/
theorem bondCore_pos_wide (ri zi xi rj zj xj b : ℝ) (hri : 0 < ri) (hrj : 0 < rj) (hzi : 0 < zi) (hzj : 0 < zj)
    (hxi : 2 ≤ xi) (hxi' : xi ≤ 12) (hxj : 2 ≤ xj) (hxj' : xj ≤ 12) (hb : 0 < b) (hb2 : b ≤ 32) :
    0 < (bondCore ri zi xi rj zj xj b).1 ∧ 0 < (bondCore ri zi xi rj zj xj b).2 := by
  have hrij : 0 < (bondCore ri zi xi rj zj xj b).2 := by
    unfold bondCore
    simp only [sqrt_real, log_real, npow_real, dec_val]
    have hD : 0 < xi * ri + xj * rj := by positivity
    have hs := sq_sqrt_sub_le_const xi xj hxi hxi' hxj hxj'
    have hsum : 0 < ri + rj := by linarith
    have hrr : 0 < ri * rj := mul_pos hri hrj
    have hlog : Real.log b ≤ 5 * Real.log 2 := by
      have h32 : Real.log b ≤ Real.log 32 := Real.log_le_log hb hb2
      have : Real.log 32 = 5 * Real.log 2 := by
        rw [show (32 : ℝ) = 2 ^ 5 by norm_num, Real.log_pow]; norm_num
      linarith
    have hl2 := Real.log_two_lt_d9
    have hEN : ri * rj * (Real.sqrt xi - Real.sqrt xj) ^ 2 / (xi * ri + xj * rj) ≤ (5263 / 10000) * (ri + rj) := by
      rw [div_le_iff₀ hD]
      have h1 : ri * rj * (Real.sqrt xi - Real.sqrt xj) ^ 2 ≤ ri * rj * (421 / 100) :=
        mul_le_mul_of_nonneg_left hs hrr.le
      have h2 : 2 * (ri + rj) ≤ xi * ri + xj * rj := by nlinarith
      have h3 : 4 * (ri * rj) ≤ (ri + rj) * (ri + rj) := by nlinarith [sq_nonneg (ri - rj)]
      nlinarith [mul_le_mul_of_nonneg_left h2 hsum.le]
    have hBO : (1332 : ℝ) / 10 ^ 4 * (ri + rj) * Real.log b ≤ (4617 / 10000) * (ri + rj) := by
      have : Real.log b ≤ 3.465735904 := by linarith
      have h3 : (1332 : ℝ) / 10 ^ 4 * (ri + rj) * Real.log b ≤ (1332 : ℝ) / 10 ^ 4 * (ri + rj) * 3.465735904 :=
        mul_le_mul_of_nonneg_left this (by positivity)
      nlinarith
    push_cast
    nlinarith
  refine ⟨?_, hrij⟩
  have : (bondCore ri zi xi rj zj xj b).1 =
      (66412 : ℝ) / 10 ^ 2 * zi * zj / ((bondCore ri zi xi rj zj xj b).2) ^ 3 / 2 := by
    unfold bondCore
    simp only [sqrt_real, log_real, npow_real, dec_val, int_val]
    push_cast
    ring
  rw [this]
  positivity

/-- positivity of both bond parameters for two types of the table and a bond order in (0, 32] -/
theorem bondParams_pos_wide (a1 a2 : String) (bo : Option Rat) (rules : List (List String × Rat))
    (h1 : IsType a1) (h2 : IsType a2)
    (hb : 0 < bondOrderOf a1 a2 bo rules) (hb2 : bondOrderOf a1 a2 bo rules ≤ 32) :
    ∃ k r : ℝ, bondParams (α := ℝ) uff4mof a1 a2 bo rules = .ok (k, r) ∧ 0 < k ∧ 0 < r := by
  obtain ⟨row1, h1⟩ := (isType_iff a1).mp h1
  obtain ⟨row2, h2⟩ := (isType_iff a2).mp h2
  have f1 := rowOkR_of_lookup a1 row1 h1
  have f2 := rowOkR_of_lookup a2 row2 h2
  have g1 := rowOk2R_of_lookup a1 row1 h1
  have g2 := rowOk2R_of_lookup a2 row2 h2
  rw [bondParams_real a1 a2 bo rules row1 row2 h1 h2, if_neg (not_le.mpr hb)]
  have hbR : (0 : ℝ) < ((bondOrderOf a1 a2 bo rules : ℚ) : ℝ) := by exact_mod_cast hb
  have hb2R : ((bondOrderOf a1 a2 bo rules : ℚ) : ℝ) ≤ 32 := by exact_mod_cast hb2
  have := bondCore_pos_wide (colR row1 0) (colR row1 5) (colR row1 8) (colR row2 0) (colR row2 5) (colR row2 8) _
    f1.r1_pos f2.r1_pos f1.Z1_pos f2.Z1_pos g1.Xi_ge g1.Xi_le g2.Xi_ge g2.Xi_le hbR hb2R
  exact ⟨_, _, rfl, this.1, this.2⟩

/-- `angle_params` on three types with bond orders in (0, 32]: defined, documented style, and a positive force
    constant when the centre's θ0 ≥ 90° -/
theorem angleParams_ok_wide (a1 a2 a3 : String) (bo1 bo2 : Option Rat) (rules : List (List String × Rat))
    (row2 : List Dec) (h1 : IsType a1) (h2 : lookup uff4mof a2 = some row2) (h3 : IsType a3)
    (hb1 : 0 < bondOrderOf a1 a2 bo1 rules ∧ bondOrderOf a1 a2 bo1 rules ≤ 32)
    (hb2 : 0 < bondOrderOf a2 a3 bo2 rules ∧ bondOrderOf a2 a3 bo2 rules ≤ 32) :
    ∃ res : AngleResult ℝ, angleParams (α := ℝ) uff4mof a1 a2 a3 bo1 bo2 rules = .ok res
      ∧ res.style = angleStyle (colQ row2 1) a2
      ∧ (90 ≤ colQ row2 1 → 0 < res.k) := by
  obtain ⟨row1, h1'⟩ := (isType_iff a1).mp h1
  obtain ⟨row3, h3'⟩ := (isType_iff a3).mp h3
  have h2t : IsType a2 := (isType_iff a2).mpr ⟨row2, h2⟩
  obtain ⟨k1, r1, e1, _, hr1⟩ := bondParams_pos_wide a1 a2 bo1 rules h1 h2t hb1.1 hb1.2
  obtain ⟨k2, r2, e2, _, hr2⟩ := bondParams_pos_wide a2 a3 bo2 rules h2t h3 hb2.1 hb2.2
  have f1 := rowOkR_of_lookup a1 row1 h1'
  have f2 := rowOkR_of_lookup a2 row2 h2
  have f3 := rowOkR_of_lookup a3 row3 h3'
  rw [angleParams_real a1 a2 a3 bo1 bo2 rules row1 row2 row3 h1' h2 h3', e1, e2]
  refine ⟨_, rfl, angleCore_style _ _ _ _ _ _, ?_⟩
  intro h90
  rw [angleCore_k]
  have h90R : (90 : ℝ) ≤ colR row2 1 := by unfold colR; exact_mod_cast h90
  exact angleK_pos _ _ _ _ _ h90R f2.th_le hr1 hr2 f1.Z1_pos f3.Z1_pos

end Mofun.Uff
