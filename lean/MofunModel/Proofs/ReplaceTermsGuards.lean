/-
  ReplaceTermsGuards.lean — C06, part 5: the decidable guards of the property theorems (matches are valid,
  pairwise disjoint index tuples; the unchanged-atom pairing is injective; the pattern's terms are well formed and
  distinct up to reversal) and what follows from them: images of different matches are disjoint, the image map of
  one match is injective, images survive the final delete.  Namespace `Mofun.C06`.
-/
import MofunModel.Proofs.ReplaceTermsDelete

namespace Mofun.C06
open Mofun

/-! ### guards -/

/-- every match is an index tuple of the search pattern's length inside the structure, and no atom occurs in two
    matches or twice in one (non-overlapping matches; for the search's own output this is C01/C07's business) -/
def MatchesOK (s p : Atoms) (ms : List PlacedMatch) : Prop :=
  (ms.flatMap (·.idx)).Nodup ∧ ∀ m ∈ ms, m.idx.length = p.atoms.length ∧ ∀ i ∈ m.idx, i < s.atoms.length

instance (s p : Atoms) (ms : List PlacedMatch) : Decidable (MatchesOK s p ms) := by
  unfold MatchesOK; infer_instance

/-- no two atoms of the replacement pattern are identified with the same atom of the search pattern -/
def PairsInj (pairs : List (Nat × Nat)) : Prop := (pairs.map (·.2)).Nodup

instance (pairs : List (Nat × Nat)) : Decidable (PairsInj pairs) := by unfold PairsInj; infer_instance

/-- the terms of a table are well formed for a structure of `n` atoms -/
def TermsOK (t : TermTable) (n : Nat) : Prop := ∀ u ∈ t.terms, u.atoms ≠ [] ∧ ∀ a ∈ u.atoms, a < n

instance (t : TermTable) (n : Nat) : Decidable (TermsOK t n) := by unfold TermsOK; infer_instance

/-- no two terms of the list sit on the same atoms, forwards or reversed -/
def DistinctUpToRev (ts : List Term) : Prop :=
  ts.Pairwise (fun u u' => u.atoms ≠ u'.atoms ∧ u.atoms ≠ u'.atoms.reverse)

instance (ts : List Term) : Decidable (DistinctUpToRev ts) := by unfold DistinctUpToRev; infer_instance

/-! ### the unchanged-atom pairing -/

theorem unchangedPairs_snd_lt (orig final : Atoms) (kv : Nat × Nat) (h : kv ∈ unchangedPairs orig final) :
    kv.2 < final.atoms.length := by
  simp only [unchangedPairs, List.mem_filterMap] at h
  obtain ⟨i, _, hi⟩ := h
  split at hi
  · cases hi
  · rw [Option.map_eq_some_iff] at hi
    obtain ⟨j, hj, e⟩ := hi
    have := List.mem_of_find?_eq_some hj
    rw [← e]
    simpa using this

theorem matchMap_mem (pairs : List (Nat × Nat)) (ra : Bool) (m : PlacedMatch) (k v : Nat) :
    (k, v) ∈ matchMap pairs ra m ↔ ra = false ∧ ∃ j, (k, j) ∈ pairs ∧ v = m.idx.getD j 0 := by
  unfold matchMap
  cases ra with
  | true => simp
  | false =>
    simp only [Bool.false_eq_true, if_false, List.mem_map, true_and]
    constructor
    · rintro ⟨kv, hkv, e⟩
      have e1 : kv.1 = k := by simpa using congrArg Prod.fst e
      have e2 : m.idx.getD kv.2 0 = v := by simpa using congrArg Prod.snd e
      exact ⟨kv.2, by rw [← e1]; exact hkv, e2.symm⟩
    · rintro ⟨j, hj, e⟩
      exact ⟨(k, j), hj, by simp [e]⟩

/-- the values of a match's index map are matched atoms -/
theorem matchMap_vals_sub (pairs : List (Nat × Nat)) (ra : Bool) (m : PlacedMatch)
    (hp : ∀ kv ∈ pairs, kv.2 < m.idx.length) (v : Nat) (hv : v ∈ (matchMap pairs ra m).map (·.2)) : v ∈ m.idx := by
  obtain ⟨kv, hkv, e⟩ := List.mem_map.mp hv
  obtain ⟨_, j, hj, e2⟩ := (matchMap_mem pairs ra m kv.1 kv.2).mp hkv
  have hlt := hp _ hj
  rw [← e, e2, List.getD_eq_getElem?_getD, List.getElem?_eq_getElem hlt]
  exact List.getElem_mem hlt

theorem getElem?_inj_of_nodup {α} [DecidableEq α] (l : List α) (hnd : l.Nodup) (i j : Nat) (x : α)
    (hi : l[i]? = some x) (hj : l[j]? = some x) : i = j := by
  have h1 := indexOf?_nodup l hnd x i hi
  have h2 := indexOf?_nodup l hnd x j hj
  rw [h1] at h2
  exact Option.some.inj h2

/-- the values of a match's index map are pairwise distinct -/
theorem matchMap_vals_nodup (pairs : List (Nat × Nat)) (ra : Bool) (m : PlacedMatch) (hm : m.idx.Nodup)
    (hinj : PairsInj pairs) (hp : ∀ kv ∈ pairs, kv.2 < m.idx.length) :
    ((matchMap pairs ra m).map (·.2)).Nodup := by
  unfold matchMap
  cases ra with
  | true => simp
  | false =>
    simp only [Bool.false_eq_true, if_false, List.map_map]
    rw [List.nodup_iff_pairwise_ne, List.pairwise_map]
    have h0 : pairs.Pairwise (fun a b => a.2 ≠ b.2) := by
      have := List.nodup_iff_pairwise_ne.mp hinj
      exact List.pairwise_map.mp this
    refine List.Pairwise.imp_of_mem ?_ h0
    intro a b ha hb hne e
    simp only [Function.comp] at e
    have hla := hp a ha
    have hlb := hp b hb
    rw [List.getD_eq_getElem?_getD, List.getD_eq_getElem?_getD, List.getElem?_eq_getElem hla,
      List.getElem?_eq_getElem hlb] at e
    simp only [Option.getD_some] at e
    exact hne (getElem?_inj_of_nodup m.idx hm a.2 b.2 m.idx[a.2] (List.getElem?_eq_getElem hla)
      (by rw [List.getElem?_eq_getElem hlb, e]))

/-- bindings with the same value are the same binding's key -/
theorem key_eq_of_vals_nodup (map : List (Nat × Nat)) (hv : (map.map (·.2)).Nodup) (k k' v : Nat)
    (h : (k, v) ∈ map) (h' : (k', v) ∈ map) : k = k' := by
  induction map with
  | nil => simp at h
  | cons kv map ih =>
    have hv' : (kv.2 :: map.map (·.2)).Nodup := hv
    obtain ⟨hnot, hrest⟩ := List.nodup_cons.mp hv'
    rcases List.mem_cons.mp h with e | e <;> rcases List.mem_cons.mp h' with e' | e'
    · rw [← e] at e'; exact (Prod.mk.inj e').1.symm
    · exfalso; apply hnot; rw [← e]; exact List.mem_map.mpr ⟨(k', v), e', rfl⟩
    · exfalso; apply hnot; rw [← e']; exact List.mem_map.mpr ⟨(k, v), e, rfl⟩
    · exact ih hrest e e'

theorem flatMap_nodup_of_sub {α β} (f g : α → List β) (l : List α) (hg : (l.flatMap g).Nodup)
    (hf : ∀ x ∈ l, (f x).Nodup ∧ ∀ y ∈ f x, y ∈ g x) : (l.flatMap f).Nodup := by
  induction l with
  | nil => simp
  | cons x l ih =>
    rw [List.flatMap_cons] at hg ⊢
    obtain ⟨_, hg2, hg3⟩ := List.nodup_append.mp hg
    refine List.nodup_append.mpr ⟨(hf x (by simp)).1, ih hg2 (fun y hy => hf y (by simp [hy])), ?_⟩
    intro a ha b hb
    apply hg3 a ((hf x (by simp)).2 a ha) b
    obtain ⟨y, hy, hby⟩ := List.mem_flatMap.mp hb
    exact List.mem_flatMap.mpr ⟨y, hy, (hf y (by simp [hy])).2 b hby⟩

/-! ### consequences of `MatchesOK` -/

theorem matchesOK_idx_nodup (s p : Atoms) (ms : List PlacedMatch) (h : MatchesOK s p ms) (m : PlacedMatch)
    (hm : m ∈ ms) : m.idx.Nodup := by
  have hnd := h.1
  clear h
  induction ms with
  | nil => simp at hm
  | cons m0 ms ih =>
    rw [List.flatMap_cons] at hnd
    obtain ⟨h1, h2, _⟩ := List.nodup_append.mp hnd
    rcases List.mem_cons.mp hm with e | e
    · subst e; exact h1
    · exact ih e h2

/-- an atom of the middle match is in no other match -/
theorem matchesOK_disjoint (s p : Atoms) (pre post : List PlacedMatch) (m : PlacedMatch)
    (h : MatchesOK s p (pre ++ m :: post)) (i : Nat) (hi : i ∈ m.idx) (m' : PlacedMatch)
    (hm' : m' ∈ pre ∨ m' ∈ post) : i ∉ m'.idx := by
  obtain ⟨hnd, _⟩ := h
  rw [List.flatMap_append, List.flatMap_cons] at hnd
  obtain ⟨_, h2, h3⟩ := List.nodup_append.mp hnd
  obtain ⟨_, _, h5⟩ := List.nodup_append.mp h2
  intro hmem
  rcases hm' with hp | hp
  · exact h3 i (List.mem_flatMap.mpr ⟨m', hp, hmem⟩) i (List.mem_append_left _ hi) rfl
  · exact h5 i hi i (List.mem_flatMap.mpr ⟨m', hp, hmem⟩) rfl

theorem matchesOK_pairs_lt (s p r : Atoms) (ms : List PlacedMatch) (h : MatchesOK s p ms) (m : PlacedMatch)
    (hm : m ∈ ms) : ∀ kv ∈ unchangedPairs r p, kv.2 < m.idx.length := by
  intro kv hkv
  rw [(h.2 m hm).1]
  exact unchangedPairs_snd_lt r p kv hkv

theorem matchesOK_vals_lt (s p r : Atoms) (ra : Bool) (ms : List PlacedMatch) (h : MatchesOK s p ms)
    (m : PlacedMatch) (hm : m ∈ ms) : ∀ kv ∈ matchMap (unchangedPairs r p) ra m, kv.2 < s.atoms.length := by
  intro kv hkv
  have hv : kv.2 ∈ (matchMap (unchangedPairs r p) ra m).map (·.2) := List.mem_map.mpr ⟨kv, hkv, rfl⟩
  exact (h.2 m hm).2 _ (matchMap_vals_sub _ ra m (matchesOK_pairs_lt s p r ms h m hm) _ hv)

theorem matchesOK_vals_nodup (s p r : Atoms) (ra : Bool) (ms : List PlacedMatch) (h : MatchesOK s p ms)
    (hinj : PairsInj (unchangedPairs r p)) :
    (ms.flatMap (fun m => (matchMap (unchangedPairs r p) ra m).map (·.2))).Nodup := by
  apply flatMap_nodup_of_sub _ (·.idx) ms h.1
  intro m hm
  exact ⟨matchMap_vals_nodup _ ra m (matchesOK_idx_nodup s p ms h m hm) hinj (matchesOK_pairs_lt s p r ms h m hm),
    fun v hv => matchMap_vals_sub _ ra m (matchesOK_pairs_lt s p r ms h m hm) v hv⟩

/-! ### where an atom of the pattern goes -/

/-- the image of a pattern atom is the matched atom it is identified with, or one of the `nAdd` appended places -/
theorem imgAt_cases (r : Atoms) (pairs : List (Nat × Nat)) (ra : Bool) (base : Nat) (m : PlacedMatch) (a : Nat)
    (ha : a < r.atoms.length) :
    (∃ v, (a, v) ∈ matchMap pairs ra m ∧ imgAt r pairs ra base m a = v)
    ∨ (a ∉ mapKeys pairs ra ∧ ∃ j, (toAdd r.atoms.length (mapKeys pairs ra))[j]? = some a
        ∧ imgAt r pairs ra base m a = base + j) := by
  unfold imgAt
  rcases convOf_cases base r.atoms.length (matchMap pairs ra m) a ha with ⟨v, hv, e⟩ | ⟨hnk, j, hj, e⟩
  · exact Or.inl ⟨v, hv, by rw [e]; rfl⟩
  · rw [matchMap_keys] at hnk hj
    exact Or.inr ⟨hnk, j, hj, by rw [e, Nat.add_comm]; rfl⟩

/-- the image map of one match is injective on the atoms of the pattern -/
theorem imgAt_inj (r : Atoms) (pairs : List (Nat × Nat)) (ra : Bool) (base n : Nat) (m : PlacedMatch)
    (hv : ((matchMap pairs ra m).map (·.2)).Nodup) (hlt : ∀ kv ∈ matchMap pairs ra m, kv.2 < n) (hbase : n ≤ base)
    (a a' : Nat) (ha : a < r.atoms.length) (ha' : a' < r.atoms.length)
    (h : imgAt r pairs ra base m a = imgAt r pairs ra base m a') : a = a' := by
  rcases imgAt_cases r pairs ra base m a ha with ⟨v, hmem, e⟩ | ⟨_, j, hj, e⟩ <;>
    rcases imgAt_cases r pairs ra base m a' ha' with ⟨v', hmem', e'⟩ | ⟨_, j', hj', e'⟩
  · rw [e, e'] at h; subst h
    exact key_eq_of_vals_nodup _ hv a a' v hmem hmem'
  · have := hlt _ hmem; simp only at this; omega
  · have := hlt _ hmem'; simp only at this; omega
  · have hjj : j = j' := by omega
    subst hjj
    rw [hj] at hj'
    exact Option.some.inj hj'

theorem mem_nsFrom (κ : Kind) (r : Atoms) (pairs : List (Nat × Nat)) (ra : Bool) (off base : Nat)
    (l : List PlacedMatch) (N : List Sig) (h : N ∈ nsFrom κ r pairs ra off base l) :
    ∃ m ∈ l, ∃ b, base ≤ b ∧ N = newSigs κ r pairs ra off b m := by
  induction l generalizing base with
  | nil => simp [nsFrom] at h
  | cons m l ih =>
    simp only [nsFrom, List.mem_cons] at h
    rcases h with e | h
    · exact ⟨m, by simp, base, Nat.le_refl _, e⟩
    · obtain ⟨m', hm', b, hb, e⟩ := ih _ h
      exact ⟨m', by simp [hm'], b, by omega, e⟩

theorem nsFrom_split (κ : Kind) (r : Atoms) (pairs : List (Nat × Nat)) (ra : Bool) (off base : Nat)
    (ms : List PlacedMatch) (preN postN : List (List Sig)) (N : List Sig)
    (h : nsFrom κ r pairs ra off base ms = preN ++ N :: postN) :
    ∃ pre m post, ms = pre ++ m :: post ∧ preN = nsFrom κ r pairs ra off base pre
      ∧ N = newSigs κ r pairs ra off (base + pre.length * nAdd r pairs ra) m
      ∧ postN = nsFrom κ r pairs ra off (base + (pre.length + 1) * nAdd r pairs ra) post := by
  induction ms generalizing base preN with
  | nil => simp [nsFrom] at h
  | cons m0 ms ih =>
    simp only [nsFrom] at h
    cases preN with
    | nil =>
      simp only [List.nil_append, List.cons.injEq] at h
      exact ⟨[], m0, ms, rfl, rfl, by simp [h.1], by simp [h.2]⟩
    | cons Q preN' =>
      simp only [List.cons_append, List.cons.injEq] at h
      obtain ⟨pre, m, post, e1, e2, e3, e4⟩ := ih _ _ h.2
      refine ⟨m0 :: pre, m, post, by simp [e1], by simp [nsFrom, h.1, e2], ?_, ?_⟩
      · rw [e3]; congr 1; simp only [List.length_cons]; rw [Nat.succ_mul]; omega
      · rw [e4]; congr 1; simp only [List.length_cons]; rw [Nat.succ_mul, Nat.succ_mul, Nat.succ_mul]; omega

/-- **images of different matches are disjoint**: a term contributed by a later match shares no atom with the
    image of any pattern atom of match `m` -/
theorem later_images_disjoint (κ : Kind) (s p r : Atoms) (ra : Bool) (off : Nat)
    (pre post : List PlacedMatch) (m : PlacedMatch) (hok : MatchesOK s p (pre ++ m :: post))
    (hterms : TermsOK (κ.get r) r.atoms.length) (base b' : Nat) (hbase : s.atoms.length ≤ base)
    (hb' : base + nAdd r (unchangedPairs r p) ra ≤ b')
    (N' : List Sig) (hN' : N' ∈ nsFrom κ r (unchangedPairs r p) ra off b' post)
    (x : Sig) (hx : x ∈ N') (a : Nat) (ha : a < r.atoms.length) :
    imgAt r (unchangedPairs r p) ra base m a ∉ x.1 := by
  obtain ⟨m', hm', b'', hb'', e⟩ := mem_nsFrom κ r _ ra off b' post N' hN'
  subst e
  obtain ⟨u', hu', ex⟩ := List.mem_map.mp hx
  intro hmem
  rw [← ex] at hmem
  obtain ⟨a', ha'u, ea⟩ := List.mem_map.mp hmem
  have ha' : a' < r.atoms.length := (hterms u' hu').2 a' ha'u
  have hmem_m : m ∈ pre ++ m :: post := by simp
  have hmem_m' : m' ∈ pre ++ m :: post := by simp [hm']
  have hvm := matchesOK_vals_lt s p r ra _ hok m hmem_m
  have hvm' := matchesOK_vals_lt s p r ra _ hok m' hmem_m'
  have hsubm := matchMap_vals_sub _ ra m (matchesOK_pairs_lt s p r _ hok m hmem_m)
  have hsubm' := matchMap_vals_sub _ ra m' (matchesOK_pairs_lt s p r _ hok m' hmem_m')
  rcases imgAt_cases r _ ra base m a ha with ⟨v, hv, e⟩ | ⟨_, j, hj, e⟩ <;>
    rcases imgAt_cases r _ ra b'' m' a' ha' with ⟨v', hv', e'⟩ | ⟨_, j', hj', e'⟩
  · -- both retained atoms: they belong to different matches
    rw [e, e'] at ea
    have h1 : v ∈ m.idx := hsubm v (List.mem_map.mpr ⟨(a, v), hv, rfl⟩)
    have h2 : v' ∈ m'.idx := hsubm' v' (List.mem_map.mpr ⟨(a', v'), hv', rfl⟩)
    rw [ea] at h2
    exact matchesOK_disjoint s p pre post m hok v h1 m' (Or.inr hm') h2
  · have := hvm _ hv; simp only at this; omega
  · have := hvm' _ hv'; simp only at this; omega
  · have hjlt : j < nAdd r (unchangedPairs r p) ra := (List.getElem?_eq_some_iff.mp hj).1
    omega

/-- the atoms the pattern's image sits on are not removed: retained atoms are retained by their own match and
    belong to no other match; appended atoms are new -/
theorem image_survives (s p r : Atoms) (ra : Bool) (pre post : List PlacedMatch) (m : PlacedMatch)
    (hok : MatchesOK s p (pre ++ m :: post)) (base : Nat) (hbase : s.atoms.length ≤ base)
    (a : Nat) (ha : a < r.atoms.length) :
    imgAt r (unchangedPairs r p) ra base m a ∉ delOf (unchangedPairs r p) ra (pre ++ m :: post) := by
  intro hdel
  obtain ⟨m', hm', hin, hnot⟩ := (delOf_mem _ ra _ _).mp hdel
  have hlt' : imgAt r (unchangedPairs r p) ra base m a < s.atoms.length := (hok.2 m' hm').2 _ hin
  have hmem_m : m ∈ pre ++ m :: post := by simp
  rcases imgAt_cases r _ ra base m a ha with ⟨v, hv, e⟩ | ⟨_, j, hj, e⟩
  · have hvidx : v ∈ m.idx :=
      matchMap_vals_sub _ ra m (matchesOK_pairs_lt s p r _ hok m hmem_m) v (List.mem_map.mpr ⟨(a, v), hv, rfl⟩)
    rw [e] at hin hnot
    rcases List.mem_append.mp hm' with h1 | h1
    · exact matchesOK_disjoint s p pre post m hok v hvidx m' (Or.inl h1) hin
    · rcases List.mem_cons.mp h1 with h2 | h2
      · subst h2
        exact hnot (List.mem_map.mpr ⟨(a, v), hv, rfl⟩)
      · exact matchesOK_disjoint s p pre post m hok v hvidx m' (Or.inr h2) hin
  · omega

/-! ### type counts -/

theorem maxNat_le (l : List Nat) (n : Nat) (h : ∀ x ∈ l, x ≤ n) : maxNat l ≤ n := by
  induction l with
  | nil => simp [maxNat]
  | cons x xs ih =>
    have h1 := h x (by simp)
    have h2 := ih (fun y hy => h y (by simp [hy]))
    simp only [maxNat]; omega

/-- `num_*_types` is the length of the coefficient table when the table covers all ids in use -/
theorem numTermTypes_covered (t : TermTable) (h : ∀ u ∈ t.terms, u.ty < t.coeffs.length) :
    numTermTypes t = t.coeffs.length := by
  unfold numTermTypes
  cases ht : t.terms with
  | nil => simp
  | cons u us =>
    simp only [List.isEmpty_cons, Bool.false_eq_true, if_false]
    have hu : u.ty < t.coeffs.length := h u (by simp [ht])
    have : maxNat ((u :: us).map (·.ty)) ≤ t.coeffs.length - 1 := by
      apply maxNat_le
      intro x hx
      obtain ⟨w, hw, e⟩ := List.mem_map.mp hx
      have := h w (by rw [ht]; exact hw)
      omega
    omega

theorem numTermTypes_noterms (t : TermTable) (h : t.terms = []) : numTermTypes t = t.coeffs.length := by
  unfold numTermTypes; simp [h]

end Mofun.C06
