/-
  SelfReplaceTerms.lean — self-replacement with a pattern that CARRIES terms (C08, known finding
  `C08-self-replacement-adds-the-patterns-own-terms`): the term tuples of the result are those of the structure together
  with the images of the pattern's own terms on the atoms of every match (modulo listing a tuple backwards).
-/
import MofunModel.Proofs.SelfReplaceRoundtrip

namespace Mofun.C08

open Mofun

/-! ### tuples up to reversal -/

/-- the same term: listed forwards or backwards -/
def sameTuple (a u : List Nat) : Prop := a = u ∨ a = u.reverse

/-- the table has a term on this tuple (forwards or backwards) -/
def hasTuple (T : List Term) (u : List Nat) : Prop := ∃ t ∈ T, sameTuple t.atoms u

theorem sameTuple_of_both {a v u : List Nat} (h1 : sameTuple a u) (h2 : sameTuple a v) : sameTuple v u := by
  rcases h1 with h1 | h1 <;> rcases h2 with h2 | h2
  · left; rw [← h2, h1]
  · right
    have : v = a.reverse := by rw [h2, List.reverse_reverse]
    rw [this, h1]
  · right
    rw [← h2, h1]
  · left
    have : v = a.reverse := by rw [h2, List.reverse_reverse]
    rw [this, h1, List.reverse_reverse]

/-! ### the kept sub-list, membership -/

theorem mem_keepIdx_of {α} (l : List α) (idx : List Nat) (i : Nat) (x : α) (hi : i ∉ idx) (h : l[i]? = some x) :
    x ∈ keepIdx l idx := by
  unfold keepIdx
  apply List.mem_map.mpr
  refine ⟨(x, i), ?_, rfl⟩
  apply List.mem_filter.mpr
  refine ⟨List.mem_zipIdx_iff_getElem?.mpr h, ?_⟩
  simpa using hi

theorem mem_keepIdx_iff {α} (l : List α) (idx : List Nat) (x : α) :
    x ∈ keepIdx l idx ↔ ∃ i, i ∉ idx ∧ l[i]? = some x := by
  constructor
  · intro h
    unfold keepIdx at h
    obtain ⟨p, hp, rfl⟩ := List.mem_map.mp h
    obtain ⟨hp1, hp2⟩ := List.mem_filter.mp hp
    exact ⟨p.2, by simpa using hp2, List.mem_zipIdx_iff_getElem?.mp hp1⟩
  · rintro ⟨i, hi, h⟩
    exact mem_keepIdx_of l idx i x hi h

theorem deleteIdx_eq_keepIdx {α} (l : List α) (idx : List Nat) : deleteIdx l idx = keepIdx l idx := by
  simp [deleteIdx, deleteIdx_go_eq, keepIdx]

/-! ### one term kind of `extend` -/

/-- the table `extendWith` returns when every atom of every new term can be re-targeted -/
def extRes (mine other : TermTable) (off : Nat) (conv : Nat → Option Nat) : TermTable :=
  if other.terms.isEmpty then
    { mine with
      terms := mine.terms.map (fun t => { t with extra := padRow t.extra (mergeLabels mine.xlabels other.xlabels).length })
      xlabels := mergeLabels mine.xlabels other.xlabels }
  else
    { mine with
      terms := deleteIdx
        (mine.terms.map (fun t => { t with extra := padRow t.extra (mergeLabels mine.xlabels other.xlabels).length }) ++
          other.terms.map (fun t =>
            ({ atoms := t.atoms.map (fun a => (conv a).getD 0), ty := t.ty + off,
               extra := matchRow (mergeLabels mine.xlabels other.xlabels) other.xlabels t.extra } : Term)))
        (existingIdx mine.terms ((other.terms.map (fun t =>
            ({ atoms := t.atoms.map (fun a => (conv a).getD 0), ty := t.ty + off,
               extra := matchRow (mergeLabels mine.xlabels other.xlabels) other.xlabels t.extra } : Term))).map (·.atoms)))
      xlabels := mergeLabels mine.xlabels other.xlabels }

theorem extendWith_ok (mine other : TermTable) (off : Nat) (conv : Nat → Option Nat)
    (hc : ∀ t ∈ other.terms, ∀ a ∈ t.atoms, (conv a).isSome = true) :
    mine.extendWith other off conv = .ok (extRes mine other off conv) := by
  unfold TermTable.extendWith extRes
  by_cases he : other.terms.isEmpty
  · simp only [he, if_true]
  · have hany : other.terms.any (fun t => t.atoms.any (fun a => (conv a).isNone)) = false := by
      rw [List.any_eq_false]
      intro t ht
      rw [Bool.not_eq_true, List.any_eq_false]
      intro a ha
      have := hc t ht a ha
      cases hca : conv a <;> simp_all
    simp only [he, Bool.false_eq_true, if_false, hany]

theorem mem_existingIdx_imp (old : List Term) (new : List (List Nat)) (i : Nat) (h : i ∈ existingIdx old new) :
    i < old.length ∧ ∃ t, old[i]? = some t ∧ ∃ u ∈ new, t.atoms = u ∨ t.atoms = u.reverse := by
  unfold existingIdx at h
  simp only [List.mem_filter, List.mem_range] at h
  obtain ⟨hi, h⟩ := h
  have hget : old[i]? = some old[i] := List.getElem?_eq_getElem hi
  rw [hget] at h
  simp only [Bool.or_eq_true, List.any_eq_true, decide_eq_true_eq] at h
  refine ⟨hi, old[i], hget, ?_⟩
  rcases h with ⟨u, hu, e⟩ | ⟨u, hu, e⟩
  · exact ⟨u, hu, Or.inl e⟩
  · exact ⟨u, hu, Or.inr e⟩

/-- **extRes_tuples**: the tuples of the returned table (up to reversal) are the old ones and the re-targeted new ones -/
theorem extRes_tuples (mine other : TermTable) (off : Nat) (conv : Nat → Option Nat) (u : List Nat) :
    hasTuple (extRes mine other off conv).terms u ↔
      hasTuple mine.terms u ∨ ∃ t ∈ other.terms, sameTuple (t.atoms.map (fun a => (conv a).getD 0)) u := by
  unfold extRes
  by_cases he : other.terms.isEmpty
  · have hnil : other.terms = [] := List.isEmpty_iff.mp he
    simp only [hnil, List.isEmpty_nil, if_true, List.not_mem_nil, false_and, exists_false, or_false]
    unfold hasTuple
    constructor
    · rintro ⟨t', ht', hs⟩
      obtain ⟨t, ht, rfl⟩ := List.mem_map.mp ht'
      exact ⟨t, ht, hs⟩
    · rintro ⟨t, ht, hs⟩
      exact ⟨_, List.mem_map_of_mem ht, hs⟩
  · simp only [he, Bool.false_eq_true, if_false]
    rw [deleteIdx_eq_keepIdx, keepIdx_append_lt _ _ _ (by
      intro i hi
      have := (mem_existingIdx_imp _ _ _ hi).1
      simpa using this)]
    unfold hasTuple
    constructor
    · rintro ⟨t', ht', hs⟩
      rcases List.mem_append.mp ht' with hk | hn
      · obtain ⟨i, _, hget⟩ := (mem_keepIdx_iff _ _ _).mp hk
        rw [List.getElem?_map] at hget
        cases hm : mine.terms[i]? with
        | none => rw [hm] at hget; simp at hget
        | some t =>
          rw [hm] at hget
          simp only [Option.map_some, Option.some.injEq] at hget
          subst hget
          exact Or.inl ⟨t, List.mem_of_getElem? hm, hs⟩
      · obtain ⟨t, ht, rfl⟩ := List.mem_map.mp hn
        exact Or.inr ⟨t, ht, hs⟩
    · rintro (⟨t, ht, hs⟩ | ⟨t, ht, hs⟩)
      · obtain ⟨i, hi, hget⟩ := List.getElem_of_mem ht
        have hget' : mine.terms[i]? = some t := by rw [List.getElem?_eq_getElem hi, hget]
        by_cases hex : i ∈ existingIdx mine.terms ((other.terms.map (fun t =>
            ({ atoms := t.atoms.map (fun a => (conv a).getD 0), ty := t.ty + off,
               extra := matchRow (mergeLabels mine.xlabels other.xlabels) other.xlabels t.extra } : Term))).map (·.atoms))
        · -- superseded: the superseding new term has the same tuple
          obtain ⟨_, t0, h0, v, hv, hsv⟩ := mem_existingIdx_imp _ _ _ hex
          rw [hget'] at h0
          cases h0
          obtain ⟨nt, hnt, rfl⟩ := List.mem_map.mp hv
          exact ⟨nt, List.mem_append.mpr (Or.inr hnt), sameTuple_of_both hs hsv⟩
        · refine ⟨{ t with extra := padRow t.extra (mergeLabels mine.xlabels other.xlabels).length },
            List.mem_append.mpr (Or.inl ?_), hs⟩
          apply mem_keepIdx_of _ _ i _ hex
          rw [List.getElem?_map, hget']
          rfl
      · exact ⟨_, List.mem_append.mpr (Or.inr (List.mem_map_of_mem ht)), hs⟩

theorem extRes_coeffs (mine other : TermTable) (off : Nat) (conv : Nat → Option Nat) :
    (extRes mine other off conv).coeffs = mine.coeffs := by
  unfold extRes; split <;> rfl

/-! ### `extend` with a covering index map, the other structure carrying terms -/

/-- `structure_index_map2.get` of `Atoms.extend`, named -/
def coverConv (map : List (Nat × Nat)) (toAdd : List Nat) (n : Nat) : Nat → Option Nat := fun k =>
  match lookupLast map k with
  | some v => some v
  | none => (indexOf? toAdd k).map (· + n)

/-- the body of `Atoms.extend … (some offs) map`, with the index conversion named -/
def extendBody (a b : Atoms) (offs : Offsets) (map : List (Nat × Nat)) : Except Err Atoms :=
  let n := a.atoms.length
  let labels := mergeLabels a.xlabels b.xlabels
  let w := labels.length
  let bx : List (List String) := b.atoms.map (fun r => matchRow labels b.xlabels r.extra)
  if !(map.map (·.1)).Nodup' then .error .domain
  else if map.any (fun kv => kv.1 ≥ b.atoms.length || kv.2 ≥ n) then .error .index
  else
    let padded := a.atoms.map (fun r => { r with extra := padRow r.extra w })
    let anyFields : Bool := n * w > 0
    let updated := map.foldl (fun (rows : List AtomRow) kv =>
        match b.atoms[kv.1]?, rows[kv.2]? with
        | some br, some r =>
            rows.set kv.2 { r with ty := br.ty + offs.atom,
                                   extra := if anyFields then bx.getD kv.1 [] else r.extra }
        | _, _ => rows) padded
    let keys := map.map (·.1)
    let toAdd := (List.range b.atoms.length).filter (fun i => !keys.contains i)
    let added := toAdd.filterMap (fun i => match b.atoms[i]? with
        | some br => some { br with ty := br.ty + offs.atom, extra := bx.getD i [] }
        | none => none)
    do
      let bonds ← a.bonds.extendWith b.bonds offs.bond (coverConv map toAdd n)
      let angles ← a.angles.extendWith b.angles offs.angle (coverConv map toAdd n)
      let dihedrals ← a.dihedrals.extendWith b.dihedrals offs.dihedral (coverConv map toAdd n)
      let impropers ← a.impropers.extendWith b.impropers offs.improper (coverConv map toAdd n)
      pure { a with
        atoms := updated ++ added
        xlabels := labels
        bonds := bonds, angles := angles, dihedrals := dihedrals, impropers := impropers }

theorem extend_eq_body (a b : Atoms) (offs : Offsets) (map : List (Nat × Nat)) :
    a.extend b (some offs) map = extendBody a b offs map := rfl

theorem lookupLast_map_aux (l : List Nat) (g : Nat → Nat) (k : Nat) (acc : Option Nat) :
    (l.map (fun i => (i, g i))).foldl (fun acc kv => if kv.1 = k then some kv.2 else acc) acc
      = if k ∈ l then some (g k) else acc := by
  induction l generalizing acc with
  | nil => simp
  | cons i rest ih =>
    simp only [List.map_cons, List.foldl_cons, ih]
    by_cases hik : i = k
    · subst hik; simp
    · have : k ≠ i := fun e => hik e.symm
      simp [hik, this]

theorem lookupLast_map (l : List Nat) (g : Nat → Nat) (k : Nat) (hk : k ∈ l) :
    lookupLast (l.map (fun i => (i, g i))) k = some (g k) := by
  unfold lookupLast
  rw [lookupLast_map_aux]
  simp [hk]

theorem coverConv_cover (n' : Nat) (g : Nat → Nat) (toAdd : List Nat) (n k : Nat) (hk : k < n') :
    coverConv ((List.range n').map (fun i => (i, g i))) toAdd n k = some (g k) := by
  unfold coverConv
  rw [lookupLast_map _ _ _ (List.mem_range.mpr hk)]

/-- every atom index used by a term of `p` is an atom of `p` -/
def termsValid (p : Atoms) : Bool :=
  let ok := fun (t : TermTable) => t.terms.all (fun u => u.atoms.all (fun a => decide (a < p.atoms.length)))
  ok p.bonds && ok p.angles && ok p.dihedrals && ok p.impropers

/-- the image of a tuple of pattern atoms under a match -/
def imageOf (g : Nat → Nat) (t : Term) : List Nat := t.atoms.map g

/-- what `extend` with a covering map does to the tuples of one kind -/
def TuplesGrow (old new : TermTable) (other : TermTable) (g : Nat → Nat) : Prop :=
  ∀ u, hasTuple new.terms u ↔ hasTuple old.terms u ∨ ∃ t ∈ other.terms, sameTuple (imageOf g t) u

theorem tuplesGrow_extRes (mine other : TermTable) (off : Nat) (n' : Nat) (g : Nat → Nat) (toAdd : List Nat) (n : Nat)
    (hv : ∀ t ∈ other.terms, ∀ a ∈ t.atoms, a < n') :
    TuplesGrow mine (extRes mine other off (coverConv ((List.range n').map (fun i => (i, g i))) toAdd n)) other g := by
  intro u
  rw [extRes_tuples]
  have himg : ∀ t ∈ other.terms,
      t.atoms.map (fun a => ((coverConv ((List.range n').map (fun i => (i, g i))) toAdd n) a).getD 0) = imageOf g t := by
    intro t ht
    unfold imageOf
    apply List.map_congr_left
    intro a ha
    rw [coverConv_cover n' g toAdd n a (hv t ht a ha)]
    rfl
  constructor
  · rintro (h | ⟨t, ht, hs⟩)
    · exact Or.inl h
    · exact Or.inr ⟨t, ht, by rw [← himg t ht]; exact hs⟩
  · rintro (h | ⟨t, ht, hs⟩)
    · exact Or.inl h
    · exact Or.inr ⟨t, ht, by rw [himg t ht]; exact hs⟩

/-- **extend_cover_terms**: `extend_cover` for an other structure WITH terms (all on its own atoms): the call succeeds, no
    atom is appended, rows keep every invariant, and for each kind the tuples grow by the images of the other's terms -/
theorem extend_cover_terms (a b : Atoms) (offs : Offsets) (g : Nat → Nat)
    (hvals : ∀ i, i < b.atoms.length → g i < a.atoms.length)
    (hb : termsValid b = true)
    (Q : Nat → AtomRow → Prop)
    (hQ0 : ∀ i r e, a.atoms[i]? = some r → Q i { r with extra := e })
    (hadopt : ∀ k, k < b.atoms.length → ∀ br r e, b.atoms[k]? = some br → Q (g k) r →
        Q (g k) { r with ty := br.ty + offs.atom, extra := e }) :
    ∃ r, a.extend b (some offs) ((List.range b.atoms.length).map (fun i => (i, g i))) = .ok r ∧
      r.atoms.length = a.atoms.length ∧ (∀ i row, r.atoms[i]? = some row → Q i row) ∧
      r.typeElems = a.typeElems ∧ r.cell = a.cell ∧
      TuplesGrow a.bonds r.bonds b.bonds g ∧ TuplesGrow a.angles r.angles b.angles g ∧
      TuplesGrow a.dihedrals r.dihedrals b.dihedrals g ∧ TuplesGrow a.impropers r.impropers b.impropers g := by
  simp only [termsValid, Bool.and_eq_true, List.all_eq_true, decide_eq_true_eq] at hb
  obtain ⟨⟨⟨hb1, hb2⟩, hb3⟩, hb4⟩ := hb
  rw [extend_eq_body]
  unfold extendBody
  have hkeys : ((List.range b.atoms.length).map (fun i => (i, g i))).map (·.1) = List.range b.atoms.length := by
    simp [List.map_map, Function.comp_def]
  simp only [hkeys, nodup'_range, Bool.not_true, Bool.false_eq_true, if_false]
  have hany : ((List.range b.atoms.length).map (fun i => (i, g i))).any
      (fun kv => decide (kv.1 ≥ b.atoms.length) || decide (kv.2 ≥ a.atoms.length)) = false := by
    rw [List.any_eq_false]
    intro kv hkv
    obtain ⟨i, hi, rfl⟩ := List.mem_map.mp hkv
    have hi' := List.mem_range.mp hi
    have := hvals i hi'
    simp only [Bool.or_eq_true, decide_eq_true_eq, not_or]
    omega
  simp only [hany, Bool.false_eq_true, if_false]
  have hadd : (List.range b.atoms.length).filter (fun i => !(List.range b.atoms.length).contains i) = [] := by
    rw [List.filter_eq_nil_iff]
    intro i hi
    simp [List.mem_range.mp hi]
  simp only [hadd, List.filterMap_nil, List.append_nil]
  have hc : ∀ (T : TermTable), (∀ t ∈ T.terms, ∀ x ∈ t.atoms, x < b.atoms.length) →
      ∀ t ∈ T.terms, ∀ x ∈ t.atoms,
        ((coverConv ((List.range b.atoms.length).map (fun i => (i, g i))) [] a.atoms.length) x).isSome = true := by
    intro T hT t ht x hx
    rw [coverConv_cover _ g [] _ x (hT t ht x hx)]
    rfl
  rw [extendWith_ok _ _ _ _ (hc b.bonds hb1), extendWith_ok _ _ _ _ (hc b.angles hb2),
    extendWith_ok _ _ _ _ (hc b.dihedrals hb3), extendWith_ok _ _ _ _ (hc b.impropers hb4)]
  simp only [bind, Except.bind, pure, Except.pure]
  have hrows : ∀ i r, (a.atoms.map (fun r => { r with extra := padRow r.extra (mergeLabels a.xlabels b.xlabels).length }))[i]?
      = some r → Q i r := by
    intro i r h
    rw [List.getElem?_map] at h
    cases h0 : a.atoms[i]? with
    | none => rw [h0] at h; simp at h
    | some r0 =>
      rw [h0] at h; simp only [Option.map_some, Option.some.injEq] at h
      subst h; exact hQ0 i r0 _ h0
  have hadopt' : ∀ kv ∈ (List.range b.atoms.length).map (fun i => (i, g i)), ∀ br r e, b.atoms[kv.1]? = some br → Q kv.2 r →
      Q kv.2 { r with ty := br.ty + offs.atom, extra := e } := by
    intro kv hkv br r e hbr hq
    obtain ⟨k, hk, rfl⟩ := List.mem_map.mp hkv
    exact hadopt k (List.mem_range.mp hk) br r e hbr hq
  have h := foldl_adopt_inv b offs.atom
        (decide (a.atoms.length * (mergeLabels a.xlabels b.xlabels).length > 0))
        (b.atoms.map (fun r => matchRow (mergeLabels a.xlabels b.xlabels) b.xlabels r.extra)) Q
        ((List.range b.atoms.length).map (fun i => (i, g i)))
        (a.atoms.map (fun r => { r with extra := padRow r.extra (mergeLabels a.xlabels b.xlabels).length }))
        hrows hadopt'
  refine ⟨_, rfl, ?_, ?_, rfl, rfl, tuplesGrow_extRes _ _ _ _ g [] _ hb1, tuplesGrow_extRes _ _ _ _ g [] _ hb2,
    tuplesGrow_extRes _ _ _ _ g [] _ hb3, tuplesGrow_extRes _ _ _ _ g [] _ hb4⟩
  · exact h.1.trans (List.length_map _)
  · exact h.2

/-! ### the loop of `replaceCore s p p` when `p` carries terms -/

/-- the tuples of one kind after the matches `done` have been processed: the structure's, and the images of the pattern's
    terms under every processed match -/
def TuplesAre (old new pat : TermTable) (done : List PlacedMatch) : Prop :=
  ∀ u, hasTuple new.terms u ↔
    hasTuple old.terms u ∨ ∃ m ∈ done, ∃ t ∈ pat.terms, sameTuple (imageOf (fun a => m.idx.getD a 0) t) u

structure InvT (s p : Atoms) (done : List PlacedMatch) (st : ReplaceState) : Prop where
  del : st.del = []
  len : st.s.atoms.length = s.atoms.length
  telems : st.s.typeElems = s.typeElems ++ p.typeElems
  cell : st.s.cell = s.cell
  rows : ∀ i row, st.s.atoms[i]? = some row → RowOK s p i row
  bonds : TuplesAre s.bonds st.s.bonds p.bonds done
  angles : TuplesAre s.angles st.s.angles p.angles done
  dihedrals : TuplesAre s.dihedrals st.s.dihedrals p.dihedrals done
  impropers : TuplesAre s.impropers st.s.impropers p.impropers done

theorem tuplesAre_init (T pat : TermTable) (T' : TermTable) (h : T'.terms = T.terms) : TuplesAre T T' pat [] := by
  intro u
  unfold hasTuple
  rw [h]
  simp

theorem tuplesAre_step (old cur new pat : TermTable) (done : List PlacedMatch) (m : PlacedMatch)
    (h1 : TuplesAre old cur pat done) (h2 : TuplesGrow cur new pat (fun a => m.idx.getD a 0)) :
    TuplesAre old new pat (done ++ [m]) := by
  intro u
  rw [h2 u, h1 u]
  constructor
  · rintro ((h | ⟨m', hm', t, ht, hs⟩) | ⟨t, ht, hs⟩)
    · exact Or.inl h
    · exact Or.inr ⟨m', List.mem_append.mpr (Or.inl hm'), t, ht, hs⟩
    · exact Or.inr ⟨m, List.mem_append.mpr (Or.inr (by simp)), t, ht, hs⟩
  · rintro (h | ⟨m', hm', t, ht, hs⟩)
    · exact Or.inl (Or.inl h)
    · rcases List.mem_append.mp hm' with hm' | hm'
      · exact Or.inl (Or.inr ⟨m', hm', t, ht, hs⟩)
      · have : m' = m := by simpa using hm'
        subst this
        exact Or.inr ⟨t, ht, hs⟩

theorem inv_initT (s p : Atoms) (htv : typesValid s = true) : InvT s p [] { s := (s.extendTypes p).1, del := [] } := by
  have h := inv_init s p htv
  exact ⟨h.del, h.len, h.telems, h.cell, h.rows, tuplesAre_init _ _ _ rfl, tuplesAre_init _ _ _ rfl,
    tuplesAre_init _ _ _ rfl, tuplesAre_init _ _ _ rfl⟩

theorem selfStep_invT (s p : Atoms) (ignore : Bool) (st : ReplaceState) (done : List PlacedMatch) (m : PlacedMatch)
    (hd : distinctAtoms p = true) (hpt : termsValid p = true) (hm : goodSelfMatch s p m = true)
    (hinv : InvT s p done st) :
    ∃ st', selfStep s p ignore (.ok st) m = .ok st' ∧ InvT s p (done ++ [m]) st' := by
  simp only [goodSelfMatch, Bool.and_eq_true, decide_eq_true_eq, List.all_eq_true, List.mem_range] at hm
  obtain ⟨⟨hlen, hvalid⟩, helem⟩ := hm
  have hmap : (unchangedPairs p p).map (fun kv => (kv.1, m.idx.getD kv.2 0))
      = (List.range p.atoms.length).map (fun i => (i, m.idx.getD i 0)) := by
    rw [unchangedPairs_self p hd, List.map_map]; rfl
  have hgetD : ∀ k, k < p.atoms.length → m.idx.getD k 0 ∈ m.idx := by
    intro k hk
    have hk' : k < m.idx.length := by omega
    rw [List.getD_eq_getElem?_getD, List.getElem?_eq_getElem hk']
    exact List.getElem_mem hk'
  obtain ⟨hr1, hr2, hr3, hr4, _, _⟩ := Mofun.C05.placeAtoms_rest s.cell (firstPos p) p m
  have hplen : (placeAtoms s.cell (firstPos p) p m).atoms.length = p.atoms.length := Mofun.C05.placeAtoms_length _ _ _ _
  have hbvalid : termsValid (placeAtoms s.cell (firstPos p) p m) = true := by
    simp only [termsValid, hr1, hr2, hr3, hr4, hplen]
    exact hpt
  obtain ⟨s', hs', hlen', hrows', htel', hcell', hb', ha', hd', hi'⟩ :=
    extend_cover_terms st.s (placeAtoms s.cell (firstPos p) p m) (s.extendTypes p).2 (fun i => m.idx.getD i 0)
      (by
        intro i hi
        rw [hplen] at hi
        have := hvalid _ (hgetD i hi)
        rw [hinv.len]; simpa using this)
      hbvalid (RowOK s p)
      (by
        intro i r e h
        exact hinv.rows i r h)
      (by
        intro k hk br r e hbr hq
        rw [hplen] at hk
        rw [Mofun.C05.placeAtoms_getElem?] at hbr
        have hpk : p.atoms[k]? = some p.atoms[k] := List.getElem?_eq_getElem hk
        rw [hpk] at hbr
        simp only [Option.map_some, Option.some.injEq] at hbr
        subst hbr
        obtain ⟨r0, h0, h1, h2, h3, _⟩ := hq
        refine ⟨r0, h0, h1, h2, h3, ?_⟩
        have hoff : (s.extendTypes p).2.atom = s.typeElems.length := rfl
        simp only [hoff]
        rw [getD_append_right', helem k hk]
        simp [Atoms.elemOf, hpk])
  rw [hplen] at hs'
  rw [hr1] at hb'; rw [hr2] at ha'; rw [hr3] at hd'; rw [hr4] at hi'
  have htd : toDeleteOf m (((List.range p.atoms.length).map (fun i => (i, m.idx.getD i 0))).map (·.2)) = [] := by
    unfold toDeleteOf
    rw [List.filter_eq_nil_iff]
    intro i hi
    have hi2 := mem_of_mem_dedup _ _ hi
    obtain ⟨k, hk, hke⟩ := List.getElem_of_mem hi2
    simp only [Bool.not_eq_true', Bool.not_eq_false, List.contains_eq_mem, decide_eq_true_eq, List.map_map,
      List.mem_map, List.mem_range, Function.comp]
    refine ⟨k, by omega, ?_⟩
    rw [List.getD_eq_getElem?_getD, List.getElem?_eq_getElem hk]
    simpa using hke
  refine ⟨{ s := s', del := st.del ++ [] }, ?_, ?_⟩
  · unfold selfStep
    simp only [hmap, hs', htd, List.all_nil, Bool.true_or, if_true, List.filter_nil]
  · exact ⟨by simp [hinv.del], by rw [hlen', hinv.len], by rw [htel', hinv.telems], by rw [hcell', hinv.cell],
      hrows', tuplesAre_step _ _ _ _ _ _ hinv.bonds hb', tuplesAre_step _ _ _ _ _ _ hinv.angles ha',
      tuplesAre_step _ _ _ _ _ _ hinv.dihedrals hd', tuplesAre_step _ _ _ _ _ _ hinv.impropers hi'⟩

theorem fold_invT (s p : Atoms) (ignore : Bool) (ms : List PlacedMatch) (st : ReplaceState) (done : List PlacedMatch)
    (hd : distinctAtoms p = true) (hpt : termsValid p = true) (hms : ∀ m ∈ ms, goodSelfMatch s p m = true)
    (hinv : InvT s p done st) :
    ∃ st', ms.foldl (selfStep s p ignore) (.ok st) = .ok st' ∧ InvT s p (done ++ ms) st' := by
  induction ms generalizing st done with
  | nil => exact ⟨st, rfl, by simpa using hinv⟩
  | cons m rest ih =>
    obtain ⟨st1, h1, hinv1⟩ := selfStep_invT s p ignore st done m hd hpt (hms m (by simp)) hinv
    simp only [List.foldl_cons, h1]
    obtain ⟨st2, h2, hinv2⟩ := ih st1 (done ++ [m]) (fun m' hm' => hms m' (by simp [hm'])) hinv1
    exact ⟨st2, h2, by simpa [List.append_assoc] using hinv2⟩

end Mofun.C08
