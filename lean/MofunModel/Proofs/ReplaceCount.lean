/-
  ReplaceCount.lean — helper lemmas for C04: what the fold of `replaceCore` does to the atom rows
  (`extend_rows` for one step, `fold_rows` / `state_rows` for the run), counting lemmas for the deletion list,
  monotonicity of the survivor index, and the relational model of the replacement-fraction selection.
  Own lemmas about `Atoms.extend` (namespace `Mofun.C04`; nothing from Proofs/ExtendLemmas.lean).  Core Lean only.
-/
import MofunModel.Props.C07
namespace Mofun.C04
open Mofun.C07

/-- the data of an atom that no replacement step may touch -/
def SameCore (row row' : AtomRow) : Prop :=
  row'.pos = row.pos ∧ row'.charge = row.charge ∧ row'.group = row.group

/-- a row kept as it was: same type id, position, charge, group; the extra columns only padded with "." -/
def Kept (row row' : AtomRow) : Prop :=
  row'.ty = row.ty ∧ row'.pos = row.pos ∧ row'.charge = row.charge ∧ row'.group = row.group
  ∧ ∃ k, row'.extra = row.extra ++ List.replicate k "."

theorem Kept.refl (row : AtomRow) : Kept row row := ⟨rfl, rfl, rfl, rfl, 0, by simp⟩

theorem Kept.trans {a b c : AtomRow} (h1 : Kept a b) (h2 : Kept b c) : Kept a c := by
  obtain ⟨t1, p1, c1, g1, k1, e1⟩ := h1
  obtain ⟨t2, p2, c2, g2, k2, e2⟩ := h2
  refine ⟨t2.trans t1, p2.trans p1, c2.trans c1, g2.trans g1, k1 + k2, ?_⟩
  rw [e2, e1, List.append_assoc, List.replicate_append_replicate]

theorem SameCore.trans {a b c : AtomRow} (h1 : SameCore a b) (h2 : SameCore b c) : SameCore a c :=
  ⟨h2.1.trans h1.1, h2.2.1.trans h1.2.1, h2.2.2.trans h1.2.2⟩

theorem Kept.sameCore {a b : AtomRow} (h : Kept a b) : SameCore a b := ⟨h.2.1, h.2.2.1, h.2.2.2.1⟩

theorem upd_fold (a b : Atoms) (offs : Offsets) (map : List (Nat × Nat))
    (hk : ∀ kv ∈ map, kv.1 < b.atoms.length) (rows : List AtomRow) (i : Nat) (row : AtomRow)
    (h : rows[i]? = some row) :
    ∃ row', (map.foldl (updStep a b offs) rows)[i]? = some row' ∧ SameCore row row'
      ∧ (i ∉ map.map (·.2) → row' = row)
      ∧ (i ∈ map.map (·.2) → ∃ kv ∈ map, kv.2 = i ∧ ∃ br, b.atoms[kv.1]? = some br ∧ row'.ty = br.ty + offs.atom) := by
  induction map generalizing rows row with
  | nil => exact ⟨row, h, ⟨rfl, rfl, rfl⟩, fun _ => rfl, fun hc => by simp at hc⟩
  | cons kv rest ih =>
    have hk' : ∀ kv ∈ rest, kv.1 < b.atoms.length := fun kv' h' => hk kv' (List.mem_cons_of_mem _ h')
    have hkv := hk kv List.mem_cons_self
    obtain ⟨br, hbr⟩ : ∃ br, b.atoms[kv.1]? = some br := ⟨b.atoms[kv.1], List.getElem?_eq_getElem hkv⟩
    simp only [List.foldl_cons]
    by_cases hi : kv.2 = i
    · -- this pair rewrites row `i`
      have hlt : kv.2 < rows.length := by
        rw [hi]; exact (List.getElem?_eq_some_iff.mp h).1
      have hrow : rows[kv.2]? = some row := by rw [hi]; exact h
      obtain ⟨row1, h1, hsc1, hty1⟩ : ∃ row1, (updStep a b offs rows kv)[i]? = some row1 ∧ SameCore row row1
          ∧ row1.ty = br.ty + offs.atom := by
        simp only [updStep, hbr, hrow]
        rw [List.getElem?_set]
        have hlt' : i < rows.length := hi ▸ hlt
        simp only [hi, if_true, hlt']
        exact ⟨_, rfl, ⟨rfl, rfl, rfl⟩, rfl⟩
      obtain ⟨row', hget, hsc, hnot, hin⟩ := ih hk' _ row1 h1
      refine ⟨row', hget, SameCore.trans hsc1 hsc, ?_, ?_⟩
      · intro hn; exact absurd (by simp [hi]) hn
      · intro _
        by_cases hr : i ∈ rest.map (·.2)
        · obtain ⟨kv', hkv', e, hh⟩ := hin hr
          exact ⟨kv', List.mem_cons_of_mem _ hkv', e, hh⟩
        · have := hnot hr
          exact ⟨kv, List.mem_cons_self, hi, br, hbr, by rw [this]; exact hty1⟩
    · have h1 : (updStep a b offs rows kv)[i]? = some row := by
        unfold updStep
        split
        · rw [List.getElem?_set]; simp [hi, h]
        · exact h
      obtain ⟨row', hget, hsc, hnot, hin⟩ := ih hk' _ row h1
      refine ⟨row', hget, hsc, ?_, ?_⟩
      · intro hn; apply hnot; intro hc; apply hn; simp [hc]
      · intro hm
        have : i ∈ rest.map (·.2) := by
          simp only [List.map_cons, List.mem_cons] at hm
          rcases hm with e | hm
          · exact absurd e.symm hi
          · exact hm
        obtain ⟨kv', hkv', e, hh⟩ := hin this
        exact ⟨kv', List.mem_cons_of_mem _ hkv', e, hh⟩

/-- number of positions of `range n` not listed among distinct `keys < n` -/
theorem length_filter_not_mem (l sub : List Nat) (hl : l.Nodup) (hs : sub.Nodup) (hsub : ∀ x ∈ sub, x ∈ l) :
    (l.filter (fun x => !sub.contains x)).length + sub.length = l.length := by
  have hperm : (l.filter (fun x => sub.contains x)).Perm sub := by
    apply (List.perm_ext_iff_of_nodup (List.Nodup.sublist List.filter_sublist hl) hs).mpr
    intro x
    simp only [List.mem_filter, List.contains_eq_mem, decide_eq_true_eq]
    exact ⟨fun h => h.2, fun h => ⟨hsub x h, h⟩⟩
  have h2 := (List.filter_append_perm (fun x => sub.contains x) l).length_eq
  rw [List.length_append, hperm.length_eq] at h2
  omega

theorem length_filterMap_all_some {α β} (l : List α) (f : α → Option β) (h : ∀ x ∈ l, (f x).isSome) :
    (l.filterMap f).length = l.length := by
  induction l with
  | nil => rfl
  | cons x xs ih =>
    have hx := h x List.mem_cons_self
    cases hfx : f x with
    | none => simp [hfx] at hx
    | some y =>
      simp only [List.filterMap_cons, hfx, List.length_cons]
      rw [ih (fun x' h' => h x' (List.mem_cons_of_mem _ h'))]

theorem addedOf_length (a b : Atoms) (offs : Offsets) (map : List (Nat × Nat))
    (hnd : (map.map (·.1)).Nodup) (hk : ∀ kv ∈ map, kv.1 < b.atoms.length) :
    (addedOf a b offs map).length + map.length = b.atoms.length := by
  have h1 : (addedOf a b offs map).length = (toAddOf b map).length := by
    unfold addedOf
    apply length_filterMap_all_some
    intro i hi
    have hlt : i < b.atoms.length := by
      unfold toAddOf at hi
      exact List.mem_range.mp (List.mem_filter.mp hi).1
    simp [List.getElem?_eq_getElem hlt]
  have h2 : (toAddOf b map).length + (map.map (·.1)).length = (List.range b.atoms.length).length := by
    unfold toAddOf
    apply length_filter_not_mem _ _ List.nodup_range hnd
    intro x hx
    obtain ⟨kv, hkv, rfl⟩ := List.mem_map.mp hx
    exact List.mem_range.mpr (hk kv hkv)
  simp only [List.length_map, List.length_range] at h2
  omega

/-- what one successful `extend` (given offsets) does to the atom rows -/
theorem extend_rows (a b : Atoms) (offs : Offsets) (map : List (Nat × Nat)) (s' : Atoms)
    (h : a.extend b (some offs) map = .ok s') :
    s'.atoms.length + map.length = a.atoms.length + b.atoms.length
    ∧ s'.typeElems = a.typeElems ∧ s'.typeLabels = a.typeLabels ∧ s'.typeMasses = a.typeMasses
    ∧ ∀ i row, a.atoms[i]? = some row → ∃ row', s'.atoms[i]? = some row' ∧ SameCore row row'
        ∧ (i ∉ map.map (·.2) → Kept row row')
        ∧ (i ∈ map.map (·.2) → ∃ kv ∈ map, kv.2 = i ∧ ∃ br, b.atoms[kv.1]? = some br
              ∧ row'.ty = br.ty + offs.atom) := by
  obtain ⟨hat, h1, h2, h3, _, _, hnd, hv⟩ := extend_ok_shape a b offs map s' h
  have hk : ∀ kv ∈ map, kv.1 < b.atoms.length := fun kv hkv => (hv kv hkv).1
  refine ⟨?_, h1, h2, h3, ?_⟩
  · rw [hat, List.length_append, updatedOf_length]
    have := addedOf_length a b offs map hnd hk
    omega
  · intro i row hrow
    have hlt : i < a.atoms.length := (List.getElem?_eq_some_iff.mp hrow).1
    have hpad : (paddedOf a b)[i]? = some { row with extra := padRow row.extra (labelsOf a b).length } := by
      simp [paddedOf, hrow]
    obtain ⟨row', hget, hsc, hnot, hin⟩ := upd_fold a b offs map hk _ i _ hpad
    have hget' : s'.atoms[i]? = some row' := by
      rw [hat, List.getElem?_append_left (by rw [updatedOf_length]; exact hlt)]
      exact hget
    refine ⟨row', hget', hsc, ?_, hin⟩
    intro hn
    rw [hnot hn]
    exact ⟨rfl, rfl, rfl, rfl, _, rfl⟩

theorem placeAtoms_getElem? (cell : Option Mat3) (p0 : Vec3) (r : Atoms) (m : PlacedMatch) (k : Nat) (br : AtomRow)
    (h : (placeAtoms cell p0 r m).atoms[k]? = some br) :
    ∃ br0, r.atoms[k]? = some br0 ∧ br.ty = br0.ty ∧ br.charge = br0.charge ∧ br.group = br0.group
      ∧ br.extra = br0.extra := by
  simp only [placeAtoms, List.getElem?_map, Option.map_eq_some_iff] at h
  obtain ⟨br0, h0, rfl⟩ := h
  exact ⟨br0, h0, rfl, rfl, rfl, rfl⟩

/-- number of atoms of the replacement that are identified with atoms of the match (0 with `replace_all`) -/
def nShared (p r : Atoms) (ra : Bool) : Nat := if ra then 0 else (unchangedPairs r p).length

/-- `i` is the image, in match `m`, of an atom shared by both patterns -/
def IsRetained (p r : Atoms) (ra : Bool) (m : PlacedMatch) (i : Nat) : Prop :=
  i ∈ (mapOf (unchangedPairs r p) ra m).map (·.2)

/-- **fold invariant.** What a successful run over the matches `ms` does to the atom rows of the running structure -/
theorem fold_rows (s p r : Atoms) (offs : Offsets) (ra ig : Bool) (ms : List PlacedMatch)
    (st st' : ReplaceState) (h : ms.foldl (step s p r offs ra ig) (.ok st) = .ok st') :
    st'.s.atoms.length + ms.length * nShared p r ra = st.s.atoms.length + ms.length * r.atoms.length
    ∧ st'.s.typeElems = st.s.typeElems ∧ st'.s.typeLabels = st.s.typeLabels ∧ st'.s.typeMasses = st.s.typeMasses
    ∧ ∀ i row, st.s.atoms[i]? = some row → ∃ row', st'.s.atoms[i]? = some row' ∧ SameCore row row'
        ∧ ((∀ m ∈ ms, ¬ IsRetained p r ra m i) → Kept row row')
        ∧ ((∃ m ∈ ms, IsRetained p r ra m i) →
            ∃ m ∈ ms, ∃ kv ∈ mapOf (unchangedPairs r p) ra m, kv.2 = i ∧ ∃ br, r.atoms[kv.1]? = some br
              ∧ row'.ty = br.ty + offs.atom) := by
  induction ms generalizing st with
  | nil =>
    simp only [List.foldl_nil, Except.ok.injEq] at h
    subst h
    refine ⟨by simp, rfl, rfl, rfl, ?_⟩
    intro i row hrow
    exact ⟨row, hrow, ⟨rfl, rfl, rfl⟩, fun _ => Kept.refl row, fun hc => by simp at hc⟩
  | cons m rest ih =>
    simp only [List.foldl_cons] at h
    cases hs' : st.s.extend (placeAtoms s.cell (p0Of p) r m) (some offs) (mapOf (unchangedPairs r p) ra m) with
    | error e =>
      have : step s p r offs ra ig (.ok st) m = .error e := by simp only [step, hs']
      rw [this, step_error] at h; cases h
    | ok s' =>
      by_cases hc : ((delSet p r ra m).all (fun i => !st.del.contains i) || ig) = true
      · have e2 : step s p r offs ra ig (.ok st) m
            = .ok { s := s', del := st.del ++ (delSet p r ra m).filter (fun i => !st.del.contains i) } := by
          simp only [step, hs', hc, if_true]
        rw [e2] at h
        obtain ⟨hl, t1, t2, t3, hrows⟩ := ih _ h
        obtain ⟨hl0, u1, u2, u3, hrows0⟩ := extend_rows _ _ _ _ _ hs'
        simp only at hl t1 t2 t3 hrows
        rw [placeAtoms_length, mapOf_length] at hl0
        refine ⟨?_, t1.trans u1, t2.trans u2, t3.trans u3, ?_⟩
        · simp only [List.length_cons, Nat.add_mul, Nat.one_mul]
          have : nShared p r ra = if ra then 0 else (unchangedPairs r p).length := rfl
          omega
        · intro i row hrow
          obtain ⟨row1, hget1, hsc1, hkept1, hin1⟩ := hrows0 i row hrow
          obtain ⟨row', hget', hsc', hkept', hin'⟩ := hrows i row1 hget1
          refine ⟨row', hget', SameCore.trans hsc1 hsc', ?_, ?_⟩
          · intro hall
            exact Kept.trans (hkept1 (hall m List.mem_cons_self))
              (hkept' (fun m' hm' => hall m' (List.mem_cons_of_mem _ hm')))
          · rintro ⟨m0, hm0, hret⟩
            by_cases hrest : ∃ m' ∈ rest, IsRetained p r ra m' i
            · obtain ⟨m', hm', kv, hkv, e, br, hbr, hty⟩ := hin' hrest
              exact ⟨m', List.mem_cons_of_mem _ hm', kv, hkv, e, br, hbr, hty⟩
            · have hall : ∀ m' ∈ rest, ¬ IsRetained p r ra m' i := fun m' hm' hc' => hrest ⟨m', hm', hc'⟩
              have hm : IsRetained p r ra m i := by
                rcases List.mem_cons.mp hm0 with e | hm0'
                · exact e ▸ hret
                · exact absurd hret (hall m0 hm0')
              obtain ⟨kv, hkv, e, br, hbr, hty⟩ := hin1 hm
              obtain ⟨br0, hbr0, hty0, _⟩ := placeAtoms_getElem? _ _ _ _ _ _ hbr
              refine ⟨m, List.mem_cons_self, kv, hkv, e, br0, hbr0, ?_⟩
              rw [(hkept' hall).1, hty, hty0]
      · have e2 : step s p r offs ra ig (.ok st) m = .error .overlap := by
          simp only [step, hs', hc, Bool.false_eq_true, if_false]
        rw [e2, step_error] at h; cases h


/-! ### the index of a surviving atom after the bulk deletion -/

theorem rankBelow_split (idx : List Nat) (i j : Nat) (hij : i ≤ j) :
    rankBelow idx j = rankBelow idx i + cntWin idx i (j - i) := by
  unfold rankBelow cntWin
  induction idx with
  | nil => rfl
  | cons d ds ih =>
    rw [length_filter_cons, length_filter_cons, length_filter_cons, ih]
    by_cases h1 : d < i
    · have h2 : d < j := by omega
      have h3 : ¬ (i ≤ d ∧ d < i + (j - i)) := by omega
      simp [h1, h2, h3]; omega
    · by_cases h2 : d < j
      · have h3 : i ≤ d ∧ d < i + (j - i) := by omega
        simp [h1, h2, h3]; omega
      · have h3 : ¬ (i ≤ d ∧ d < i + (j - i)) := by omega
        simp [h1, h2, h3]

theorem rankBelow_le_self (idx : List Nat) (hnd : idx.Nodup) (i : Nat) : rankBelow idx i ≤ i := by
  rw [← cntWin_zero_off]; exact cntWin_le idx hnd 0 i

/-- survivors keep their relative order: the new index is strictly monotone on atoms that are not deleted -/
theorem newIndex_strictMono (idx : List Nat) (hnd : idx.Nodup) (i j : Nat) (hij : i < j) (hi : i ∉ idx) :
    i - rankBelow idx i < j - rankBelow idx j := by
  have h1 := rankBelow_split idx i j (Nat.le_of_lt hij)
  have h2 : cntWin idx i (j - i) ≤ j - i - 1 := by
    obtain ⟨k, hk⟩ : ∃ k, j - i = k + 1 := ⟨j - i - 1, by omega⟩
    rw [hk, cntWin_succ idx hnd]
    have := cntWin_le idx hnd (i + 1) k
    simp only [hi, if_false]; omega
  have h3 := rankBelow_le_self idx hnd i
  omega

/-! ### counting -/

theorem nodup_map_of_injOn {α β} (l : List α) (g : α → β) (hnd : l.Nodup)
    (hinj : ∀ x ∈ l, ∀ y ∈ l, g x = g y → x = y) : (l.map g).Nodup := by
  induction l with
  | nil => simp
  | cons x xs ih =>
    have h' := List.nodup_cons.mp hnd
    simp only [List.map_cons, List.nodup_cons]
    constructor
    · intro hm
      obtain ⟨y, hy, e⟩ := List.mem_map.mp hm
      have := hinj x List.mem_cons_self y (List.mem_cons_of_mem _ hy) e.symm
      exact h'.1 (this ▸ hy)
    · exact ih h'.2 (fun a ha b hb => hinj a (List.mem_cons_of_mem _ ha) b (List.mem_cons_of_mem _ hb))

/-- guards of the clean count: the match names distinct atoms, as many as the search pattern has, and no atom of
    the search pattern is the partner of two replacement atoms -/
theorem delSet_length (p r : Atoms) (ra : Bool) (m : PlacedMatch) (hlen : m.idx.length = p.atoms.length)
    (hnd : m.idx.Nodup) (hinj : ((unchangedPairs r p).map (·.2)).Nodup) :
    (delSet p r ra m).length + nShared p r ra = p.atoms.length := by
  unfold delSet toDeleteOf nShared
  rw [dedup_of_nodup _ hnd]
  cases ra with
  | true =>
    have : m.idx.filter (fun _ => true) = m.idx := List.filter_eq_self.mpr (fun _ _ => rfl)
    simp [mapOf, this, hlen]
  | false =>
    simp only [Bool.false_eq_true, if_false]
    have hmap : (mapOf (unchangedPairs r p) false m).map (·.2)
        = ((unchangedPairs r p).map (·.2)).map (fun j => m.idx.getD j 0) := by
      simp [mapOf, List.map_map, Function.comp_def]
    rw [hmap]
    have hvals : ∀ j ∈ (unchangedPairs r p).map (·.2), j < m.idx.length := by
      intro j hj
      obtain ⟨kv, hkv, rfl⟩ := List.mem_map.mp hj
      have := (unchangedPairs_valid r p kv hkv).2
      omega
    have hget : ∀ j, j < m.idx.length → m.idx.getD j 0 = m.idx[j]?.getD 0 := fun j _ => by
      simp [List.getD_eq_getElem?_getD]
    have hnd2 : (((unchangedPairs r p).map (·.2)).map (fun j => m.idx.getD j 0)).Nodup := by
      apply nodup_map_of_injOn _ _ hinj
      intro x hx y hy e
      have hx' := hvals x hx
      have hy' := hvals y hy
      simp only [List.getD_eq_getElem?_getD, List.getElem?_eq_getElem hx', List.getElem?_eq_getElem hy',
        Option.getD_some] at e
      exact (List.getElem_inj hnd).mp e
    have hsub : ∀ x ∈ ((unchangedPairs r p).map (·.2)).map (fun j => m.idx.getD j 0), x ∈ m.idx := by
      intro x hx
      obtain ⟨j, hj, rfl⟩ := List.mem_map.mp hx
      have hj' := hvals j hj
      simp only [List.getD_eq_getElem?_getD, List.getElem?_eq_getElem hj', Option.getD_some]
      exact List.getElem_mem hj'
    have := length_filter_not_mem m.idx _ hnd hnd2 hsub
    simp only [List.length_map] at this
    omega

theorem nodup_flatten_of (L : List (List Nat)) (h1 : ∀ l ∈ L, l.Nodup)
    (h2 : L.Pairwise (fun a b => ∀ x ∈ a, x ∉ b)) : L.flatten.Nodup := by
  induction L with
  | nil => simp
  | cons l rest ih =>
    have hp := List.pairwise_cons.mp h2
    simp only [List.flatten_cons]
    apply List.nodup_append.mpr
    refine ⟨h1 l List.mem_cons_self, ih (fun l' h' => h1 l' (List.mem_cons_of_mem _ h')) hp.2, ?_⟩
    intro a ha b hb hab
    subst hab
    obtain ⟨l', hl', hal'⟩ := List.mem_flatten.mp hb
    exact hp.1 l' hl' a ha hal'

theorem length_flatten_const (L : List (List Nat)) (c : Nat) (h : ∀ l ∈ L, l.length = c) :
    L.flatten.length = L.length * c := by
  induction L with
  | nil => simp
  | cons l rest ih =>
    simp only [List.flatten_cons, List.length_append, List.length_cons]
    rw [ih (fun l' h' => h l' (List.mem_cons_of_mem _ h')), h l List.mem_cons_self, Nat.add_mul, Nat.one_mul]
    omega

/-- a duplicate-free list that names exactly the union of pairwise disjoint duplicate-free lists of length `c` -/
theorem length_of_union (del : List Nat) (L : List (List Nat)) (c : Nat) (hnd : del.Nodup)
    (hmem : ∀ x, x ∈ del ↔ ∃ l ∈ L, x ∈ l) (h1 : ∀ l ∈ L, l.Nodup) (hc : ∀ l ∈ L, l.length = c)
    (h2 : L.Pairwise (fun a b => ∀ x ∈ a, x ∉ b)) : del.length = L.length * c := by
  rw [← length_flatten_const L c hc]
  apply List.Perm.length_eq
  apply (List.perm_ext_iff_of_nodup hnd (nodup_flatten_of L h1 h2)).mpr
  intro x
  rw [hmem x, List.mem_flatten]


/-! ### the state handed to the final `delete` -/

theorem isRetained_mem_idx (p r : Atoms) (ra : Bool) (m : PlacedMatch) (hlen : m.idx.length = p.atoms.length)
    (i : Nat) (h : IsRetained p r ra m i) : i ∈ m.idx := by
  unfold IsRetained at h
  obtain ⟨kv, hkv, rfl⟩ := List.mem_map.mp h
  exact (mapOf_value_mem p r ra m hlen kv hkv).2

theorem not_isRetained_of_empty (p r : Atoms) (ra : Bool) (m : PlacedMatch) (he : r.atoms = []) (i : Nat) :
    ¬ IsRetained p r ra m i := by
  unfold IsRetained
  rw [unchangedPairs_empty r p he]
  cases ra <;> simp [mapOf]

theorem nShared_empty (p r : Atoms) (ra : Bool) (he : r.atoms = []) : nShared p r ra = 0 := by
  unfold nShared
  rw [unchangedPairs_empty r p he]
  cases ra <;> rfl

/-- everything the counting / bystander theorems need to know about the extended structure `st.s` -/
theorem state_rows (s p r : Atoms) (ms : List PlacedMatch) (ra ig : Bool) (st : ReplaceState)
    (h : replaceState s p r ms ra ig = .ok st) :
    st.s.atoms.length + ms.length * nShared p r ra = s.atoms.length + ms.length * r.atoms.length
    ∧ st.s.typeElems = s.typeElems ++ (if r.atoms.isEmpty then [] else r.typeElems)
    ∧ st.s.typeLabels = s.typeLabels ++ (if r.atoms.isEmpty then [] else r.typeLabels)
    ∧ st.s.typeMasses = s.typeMasses ++ (if r.atoms.isEmpty then [] else r.typeMasses)
    ∧ ∀ i row, s.atoms[i]? = some row → ∃ row', st.s.atoms[i]? = some row' ∧ SameCore row row'
        ∧ ((∀ m ∈ ms, ¬ IsRetained p r ra m i) → Kept row row')
        ∧ ((∃ m ∈ ms, IsRetained p r ra m i) →
            ∃ m ∈ ms, ∃ kv ∈ mapOf (unchangedPairs r p) ra m, kv.2 = i ∧ ∃ br, r.atoms[kv.1]? = some br
              ∧ row'.ty = br.ty + s.typeElems.length) := by
  unfold replaceState at h
  split at h
  · rename_i he
    have he' : r.atoms = [] := by simpa using he
    simp only [Except.ok.injEq] at h
    subst h
    refine ⟨by simp [nShared_empty p r ra he', he'], by simp [he'], by simp [he'], by simp [he'], ?_⟩
    intro i row hrow
    refine ⟨row, hrow, ⟨rfl, rfl, rfl⟩, fun _ => Kept.refl row, ?_⟩
    rintro ⟨m, _, hm⟩
    exact absurd hm (not_isRetained_of_empty p r ra m he' i)
  · rename_i he
    have he' : r.atoms.isEmpty = false := by simpa using he
    obtain ⟨hl, t1, t2, t3, hrows⟩ := fold_rows s p r _ ra ig ms _ st h
    simp only [he', Bool.false_eq_true, if_false]
    exact ⟨hl, t1, t2, t3, hrows⟩

/-! ### literally unchanged rows when the replacement brings no new extra-column labels -/

theorem extend_xlabels (a b : Atoms) (offs : Offsets) (map : List (Nat × Nat)) (s' : Atoms)
    (h : a.extend b (some offs) map = .ok s') : s'.xlabels = mergeLabels a.xlabels b.xlabels := by
  rw [extend_some_eq] at h
  split at h
  · cases h
  split at h
  · cases h
  obtain ⟨_, _, h⟩ := bind_ok _ _ _ h
  obtain ⟨_, _, h⟩ := bind_ok _ _ _ h
  obtain ⟨_, _, h⟩ := bind_ok _ _ _ h
  obtain ⟨_, _, h⟩ := bind_ok _ _ _ h
  cases h
  rfl

theorem mergeLabels_subset (mine theirs : List String) (h : ∀ x ∈ theirs, x ∈ mine) :
    mergeLabels mine theirs = mine := by
  unfold mergeLabels
  have : (dedup theirs).filter (fun l => !mine.contains l) = [] := by
    apply List.filter_eq_nil_iff.mpr
    intro x hx
    have := h x ((mem_dedup theirs x).mp hx)
    simpa using this
  rw [this, List.append_nil]

/-- exact form of the "kept" clause of `extend_rows`: an unmapped row is only widened to the merged label list -/
theorem extend_rows_exact (a b : Atoms) (offs : Offsets) (map : List (Nat × Nat)) (s' : Atoms)
    (h : a.extend b (some offs) map = .ok s') (i : Nat) (row : AtomRow) (hrow : a.atoms[i]? = some row)
    (hi : i ∉ map.map (·.2)) :
    s'.atoms[i]? = some { row with extra := padRow row.extra (mergeLabels a.xlabels b.xlabels).length } := by
  obtain ⟨hat, _, _, _, _, _, _, hv⟩ := extend_ok_shape a b offs map s' h
  have hk : ∀ kv ∈ map, kv.1 < b.atoms.length := fun kv hkv => (hv kv hkv).1
  have hlt : i < a.atoms.length := (List.getElem?_eq_some_iff.mp hrow).1
  have hpad : (paddedOf a b)[i]? = some { row with extra := padRow row.extra (labelsOf a b).length } := by
    simp [paddedOf, hrow]
  obtain ⟨row', hget, _, hnot, _⟩ := upd_fold a b offs map hk _ i _ hpad
  rw [hat, List.getElem?_append_left (by rw [updatedOf_length]; exact hlt)]
  have := hnot hi
  subst this
  exact hget

theorem padRow_of_le (e : List String) (w : Nat) (h : w ≤ e.length) : padRow e w = e := by
  unfold padRow
  have : w - e.length = 0 := by omega
  simp [this]

/-- when the replacement brings no new extra-column labels, untouched rows are untouched literally -/
theorem fold_rows_exact (s p r : Atoms) (offs : Offsets) (ra ig : Bool) (ms : List PlacedMatch)
    (hlab : ∀ x ∈ r.xlabels, x ∈ s.xlabels)
    (st st' : ReplaceState) (h : ms.foldl (step s p r offs ra ig) (.ok st) = .ok st')
    (hx : st.s.xlabels = s.xlabels) (i : Nat) (row : AtomRow) (hrow : st.s.atoms[i]? = some row)
    (hw : s.xlabels.length ≤ row.extra.length) (hnr : ∀ m ∈ ms, ¬ IsRetained p r ra m i) :
    st'.s.atoms[i]? = some row := by
  induction ms generalizing st with
  | nil =>
    simp only [List.foldl_nil, Except.ok.injEq] at h
    subst h; exact hrow
  | cons m rest ih =>
    simp only [List.foldl_cons] at h
    cases hs' : st.s.extend (placeAtoms s.cell (p0Of p) r m) (some offs) (mapOf (unchangedPairs r p) ra m) with
    | error e =>
      have : step s p r offs ra ig (.ok st) m = .error e := by simp only [step, hs']
      rw [this, step_error] at h; cases h
    | ok s' =>
      by_cases hc : ((delSet p r ra m).all (fun i => !st.del.contains i) || ig) = true
      · have e2 : step s p r offs ra ig (.ok st) m
            = .ok { s := s', del := st.del ++ (delSet p r ra m).filter (fun i => !st.del.contains i) } := by
          simp only [step, hs', hc, if_true]
        rw [e2] at h
        have hm : (mergeLabels st.s.xlabels (placeAtoms s.cell (p0Of p) r m).xlabels) = s.xlabels := by
          rw [hx]; exact mergeLabels_subset _ _ hlab
        have hx' : s'.xlabels = s.xlabels := by rw [extend_xlabels _ _ _ _ _ hs', hm]
        have hrow' : s'.atoms[i]? = some row := by
          rw [extend_rows_exact _ _ _ _ _ hs' i row hrow (hnr m List.mem_cons_self), hm, padRow_of_le _ _ hw]
        exact ih _ h hx' hrow' (fun m' hm' => hnr m' (List.mem_cons_of_mem _ hm'))
      · have e2 : step s p r offs ra ig (.ok st) m = .error .overlap := by
          simp only [step, hs', hc, Bool.false_eq_true, if_false]
        rw [e2, step_error] at h; cases h

/-- state-level form -/
theorem state_rows_exact (s p r : Atoms) (ms : List PlacedMatch) (ra ig : Bool) (st : ReplaceState)
    (h : replaceState s p r ms ra ig = .ok st) (hlab : ∀ x ∈ r.xlabels, x ∈ s.xlabels)
    (i : Nat) (row : AtomRow) (hrow : s.atoms[i]? = some row) (hw : s.xlabels.length ≤ row.extra.length)
    (hnr : ∀ m ∈ ms, ¬ IsRetained p r ra m i) : st.s.atoms[i]? = some row := by
  unfold replaceState at h
  split at h
  · simp only [Except.ok.injEq] at h
    subst h; exact hrow
  · exact fold_rows_exact s p r _ ra ig ms hlab _ st h rfl i row hrow hw hnr

/-! ### the replacement fraction: `random.sample(range(M), round(f·M))` as a relation -/

/-- what the library guarantees about the selection: `sel` lists distinct positions of the found list and its
    length `k` is A nearest integer to `f·M`, `|k − f·M| ≤ 1/2` (Python's `round` is half-to-even on the float
    product; the property says "a nearest integer") -/
structure Selection (M : Nat) (f : Rat) (sel : List Nat) : Prop where
  nodup : sel.Nodup
  valid : ∀ i ∈ sel, i < M
  nearest_lo : f * (M : Rat) - 1 / 2 ≤ (sel.length : Rat)
  nearest_hi : (sel.length : Rat) ≤ f * (M : Rat) + 1 / 2

/-- the matches at the selected positions, in the order of the selection -/
def pick (found : List PlacedMatch) (sel : List Nat) : List PlacedMatch := sel.filterMap (fun i => found[i]?)

/-- `replace_pattern_in_structure(..., return_num_matches=True)` after the search: a fraction below 1 replaces the
    selected matches only; the second component is the reported match count -/
def replaceSelected (s p r : Atoms) (found : List PlacedMatch) (f : Rat) (sel : List Nat) (ra ig : Bool) :
    Except Err (Atoms × Nat) :=
  let used := if f < 1 then pick found sel else found
  (replaceCore s p r used ra ig).map (fun res => (res, used.length))

theorem pick_length (found : List PlacedMatch) (sel : List Nat) (hv : ∀ i ∈ sel, i < found.length) :
    (pick found sel).length = sel.length := by
  unfold pick
  apply length_filterMap_all_some
  intro i hi
  simp [List.getElem?_eq_getElem (hv i hi)]

theorem pick_mem (found : List PlacedMatch) (sel : List Nat) (m : PlacedMatch) (h : m ∈ pick found sel) :
    ∃ i ∈ sel, found[i]? = some m := by
  unfold pick at h
  exact List.mem_filterMap.mp h

theorem sel_length_le (M : Nat) (sel : List Nat) (hnd : sel.Nodup) (hv : ∀ i ∈ sel, i < M) : sel.length ≤ M := by
  have := length_filter_not_mem (List.range M) sel List.nodup_range hnd (fun x hx => List.mem_range.mpr (hv x hx))
  simp only [List.length_range] at this
  omega

end Mofun.C04
