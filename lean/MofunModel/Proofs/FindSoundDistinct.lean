/-
  FindSoundDistinct.lean — lemmas for the stretch theorem `find_distinct` of C01:
  the pairwise-distance test of the extension loop (`math.isclose`, sqrt-free) can confuse a pattern atom neither with
  the SAME structure atom (pattern atoms are farther apart than atol) nor with another PERIODIC IMAGE of it (a non-zero
  lattice vector is at least as long as the smallest perpendicular width, Cauchy–Schwarz as the Lagrange identity).
-/
import MofunModel.Proofs.FindSoundLemmas
import Mathlib.Tactic.Ring
import Mathlib.Tactic.Linarith
import Mathlib.Tactic.Positivity

namespace Mofun

/-! ### the distance test cannot confuse an atom with itself or with one of its own periodic images -/

theorem normSq_nonneg (v : Vec3) : 0 ≤ Vec3.normSq v := by
  simp only [Vec3.normSq, Vec3.dot]; nlinarith [mul_self_nonneg v.x, mul_self_nonneg v.y, mul_self_nonneg v.z]

theorem distSq_nonneg (a b : Vec3) : 0 ≤ distSq a b := normSq_nonneg _

theorem distSq_self (a : Vec3) : distSq a a = 0 := by
  simp [distSq, Vec3.normSq, Vec3.dot, Vec3.sub]

/-- `math.isclose(√a, 0, abs_tol=atol)` fails when `√a > atol` -/
theorem not_isclose_zero (a atol : Rat) (ha : atol * atol < a) : iscloseSqrt a 0 atol = false := by
  have ha0 : 0 < a := lt_of_le_of_lt (mul_self_nonneg atol) ha
  unfold iscloseSqrt sqrtDiffLeSq
  simp only [Bool.or_eq_false_iff, decide_eq_false_iff_not, not_le]
  have hmx : (if a > 0 then a else 0) = a := by simp [ha0]
  rw [hmx]
  refine ⟨⟨by linarith, ?_⟩, ⟨by linarith, ?_⟩⟩
  · have : 0 < a + 0 - atol * atol := by linarith
    nlinarith [mul_pos this this]
  · have : 0 < a + 0 - a / 1000000000000000000 := by linarith
    nlinarith [mul_pos this this]

/-- `math.isclose(√a, √b, rel_tol=1e-9, abs_tol=atol)` fails when `√b ≥ W`, `√a < W − 2·atol` and `√a < (1 − 10⁻⁹)·W` -/
theorem not_isclose_far (a b W atol : Rat) (ha0 : 0 ≤ a) (ht : 0 ≤ atol) (h2 : 2 * atol ≤ W) (hb : W * W ≤ b)
    (ha : a < (W - 2 * atol) * (W - 2 * atol))
    (hrel : a * 1000000000000000000 < 999999999 * 999999999 * (W * W)) : iscloseSqrt a b atol = false := by
  have hu : 0 < W - 2 * atol := by
    rcases lt_or_eq_of_le (sub_nonneg.mpr h2) with h | h
    · exact h
    · rw [← h] at ha; simp at ha; linarith
  have hWpos : 0 < W := by linarith
  have hab : a < b := by nlinarith
  have hbpos : 0 < b := by nlinarith
  unfold iscloseSqrt sqrtDiffLeSq
  simp only [Bool.or_eq_false_iff, decide_eq_false_iff_not, not_le]
  have hmx : (if a > b then a else b) = b := by simp [not_lt.mpr (le_of_lt hab)]
  rw [hmx]
  -- α = u² − a > 0, β = b − (u + 2t)² ≥ 0
  have hα : 0 < (W - 2 * atol) * (W - 2 * atol) - a := by linarith
  have hβ : 0 ≤ b - W * W := by linarith
  refine ⟨⟨?_, ?_⟩, ⟨?_, ?_⟩⟩
  · nlinarith
  · have key : (a + b - atol * atol) * (a + b - atol * atol) - 4 * a * b
        = (12 * atol * atol * (W - 2 * atol) * (W - 2 * atol) + 24 * (W - 2 * atol) * atol * atol * atol
            + 9 * atol * atol * atol * atol)
          + 2 * (b - W * W) * (4 * (W - 2 * atol) * atol + 3 * atol * atol)
          + 2 * (4 * (W - 2 * atol) * atol + 4 * atol * atol) * ((W - 2 * atol) * (W - 2 * atol) - a)
          + 2 * atol * atol * ((W - 2 * atol) * (W - 2 * atol) - a)
          + (((W - 2 * atol) * (W - 2 * atol) - a) + (b - W * W)) * (((W - 2 * atol) * (W - 2 * atol) - a) + (b - W * W)) := by
      ring
    have h1 : 0 ≤ 12 * atol * atol * (W - 2 * atol) * (W - 2 * atol) + 24 * (W - 2 * atol) * atol * atol * atol
            + 9 * atol * atol * atol * atol := by positivity
    have h2' : 0 ≤ 2 * (b - W * W) * (4 * (W - 2 * atol) * atol + 3 * atol * atol) := by positivity
    have h3 : 0 ≤ 2 * (4 * (W - 2 * atol) * atol + 4 * atol * atol) * ((W - 2 * atol) * (W - 2 * atol) - a) := by positivity
    have h4 : 0 ≤ 2 * atol * atol * ((W - 2 * atol) * (W - 2 * atol) - a) := by positivity
    have h5 : 0 < (((W - 2 * atol) * (W - 2 * atol) - a) + (b - W * W)) * (((W - 2 * atol) * (W - 2 * atol) - a) + (b - W * W)) := by
      apply mul_pos <;> linarith
    linarith
  · linarith
  · -- γ = r²·b − a > 0 with r = 1 − 10⁻⁹ ; (a + b − ρ²b)² − 4ab = γ² + 4γbρ
    have hγ : 0 < 999999999 * 999999999 * b / 1000000000000000000 - a := by
      have : a * 1000000000000000000 < 999999999 * 999999999 * b := by nlinarith
      linarith
    have key : (a + b - b / 1000000000000000000) * (a + b - b / 1000000000000000000) - 4 * a * b
        = (999999999 * 999999999 * b / 1000000000000000000 - a) * (999999999 * 999999999 * b / 1000000000000000000 - a)
          + 4 * (999999999 * 999999999 * b / 1000000000000000000 - a) * b / 1000000000 := by ring
    have h1 : 0 < (999999999 * 999999999 * b / 1000000000000000000 - a) * (999999999 * 999999999 * b / 1000000000000000000 - a) :=
      mul_pos hγ hγ
    have h2' : 0 ≤ 4 * (999999999 * 999999999 * b / 1000000000000000000 - a) * b / 1000000000 := by positivity
    linarith


/-! ### a non-zero lattice vector is at least as long as the smallest perpendicular width -/

theorem int_sq_ge_one (i : Int) (h : i ≠ 0) : (1 : Rat) ≤ (i : Rat) * (i : Rat) := by
  have : 1 ≤ i * i := by
    rcases lt_or_gt_of_ne h with h | h
    · nlinarith
    · nlinarith
  exact_mod_cast this

/-- Cauchy–Schwarz as the Lagrange identity -/
theorem dot_sq_le (v n : Vec3) : Vec3.dot v n * Vec3.dot v n ≤ Vec3.normSq v * Vec3.normSq n := by
  have h : Vec3.normSq v * Vec3.normSq n - Vec3.dot v n * Vec3.dot v n = Vec3.normSq (Vec3.cross v n) := by
    simp only [Vec3.normSq, Vec3.dot, Vec3.cross]; ring
  have := normSq_nonneg (Vec3.cross v n)
  linarith

/-- the three guards "perpendicular width ≥ W", in squared reciprocal-vector form -/
structure WideCell (cell : Mat3) (W : Rat) : Prop where
  det_ne : cell.det ≠ 0
  wa : W * W * Vec3.normSq (Vec3.cross cell.b cell.c) ≤ cell.det * cell.det
  wb : W * W * Vec3.normSq (Vec3.cross cell.c cell.a) ≤ cell.det * cell.det
  wc : W * W * Vec3.normSq (Vec3.cross cell.a cell.b) ≤ cell.det * cell.det

theorem lattice_dot_bc (cell : Mat3) (i j l : Rat) :
    Vec3.dot (cell.lattice i j l) (Vec3.cross cell.b cell.c) = i * cell.det := by
  simp only [Mat3.lattice, Mat3.det, Vec3.dot, Vec3.cross, Vec3.add, Vec3.smul]; ring
theorem lattice_dot_ca (cell : Mat3) (i j l : Rat) :
    Vec3.dot (cell.lattice i j l) (Vec3.cross cell.c cell.a) = j * cell.det := by
  simp only [Mat3.lattice, Mat3.det, Vec3.dot, Vec3.cross, Vec3.add, Vec3.smul]; ring
theorem lattice_dot_ab (cell : Mat3) (i j l : Rat) :
    Vec3.dot (cell.lattice i j l) (Vec3.cross cell.a cell.b) = l * cell.det := by
  simp only [Mat3.lattice, Mat3.det, Vec3.dot, Vec3.cross, Vec3.add, Vec3.smul]; ring

/-- one direction: a lattice vector with a non-zero integer multiplier `i` along the vector whose reciprocal
    direction is `n` (`v·n = i·det`) -/
theorem width_bound (v n : Vec3) (i : Int) (det W : Rat) (hi : i ≠ 0) (hdet : det ≠ 0)
    (hdot : Vec3.dot v n = (i : Rat) * det) (hw : W * W * Vec3.normSq n ≤ det * det) :
    W * W ≤ Vec3.normSq v := by
  have hcs := dot_sq_le v n
  rw [hdot] at hcs
  have hi1 := int_sq_ge_one i hi
  have hd2 : 0 < det * det := by
    rcases lt_or_gt_of_ne hdet with h | h
    · exact mul_pos_of_neg_of_neg h h
    · exact mul_pos h h
  have hnn : 0 ≤ Vec3.normSq n := normSq_nonneg n
  have hnpos : 0 < Vec3.normSq n := by
    rcases lt_or_eq_of_le hnn with h | h
    · exact h
    · rw [← h] at hcs; nlinarith
  -- W² nn ≤ det² ≤ i² det² ≤ |v|² nn
  have h1 : W * W * Vec3.normSq n ≤ Vec3.normSq v * Vec3.normSq n := by nlinarith
  by_contra hlt
  have hlt' := not_le.mp hlt
  nlinarith

/-- **every non-zero lattice vector is at least `W` long** -/
theorem lattice_normSq_ge (cell : Mat3) (W : Rat) (hw : WideCell cell W) (i j l : Int)
    (hne : ¬ (i = 0 ∧ j = 0 ∧ l = 0)) : W * W ≤ Vec3.normSq (cell.lattice i j l) := by
  by_cases hi : i = 0
  · by_cases hj : j = 0
    · have hl : l ≠ 0 := fun h => hne ⟨hi, hj, h⟩
      exact width_bound _ _ l _ W hl hw.det_ne (lattice_dot_ab cell i j l) hw.wc
    · exact width_bound _ _ j _ W hj hw.det_ne (lattice_dot_ca cell i j l) hw.wb
  · exact width_bound _ _ i _ W hi hw.det_ne (lattice_dot_bc cell i j l) hw.wa

theorem sub_add_lattice (cell : Mat3) (p : Vec3) (i j l i' j' l' : Int) :
    Vec3.sub (Vec3.add p (cell.lattice i j l)) (Vec3.add p (cell.lattice i' j' l'))
      = cell.lattice ((i - i' : Int) : Rat) ((j - j' : Int) : Rat) ((l - l' : Int) : Rat) := by
  simp only [Mat3.lattice, Vec3.sub, Vec3.add, Vec3.smul, Vec3.mk.injEq]
  push_cast
  refine ⟨?_, ?_, ?_⟩ <;> ring


/-! ### distinctness of the reported atoms -/

/-- the guards of `find_distinct`, all decidable: non-negative tolerance; every perpendicular cell width is at least
    `W` (squared reciprocal-vector form); `W` exceeds the pattern diameter plus twice the tolerance, and the diameter
    is below `(1 − 10⁻⁹)·W` (the `rel_tol` of `math.isclose`); pattern atoms are pairwise farther apart than `atol` -/
structure DistinctGuards (inp : FindInput) (W : Rat) : Prop where
  atol_nonneg : 0 ≤ inp.atol
  wide : WideCell inp.cell W
  two_atol : 2 * inp.atol ≤ W
  diam : ∀ k, k < inp.ppos.length → ∀ j, j < k →
    distSq (inp.ppos.getD k Vec3.zero) (inp.ppos.getD j Vec3.zero) < (W - 2 * inp.atol) * (W - 2 * inp.atol)
  diam_rel : ∀ k, k < inp.ppos.length → ∀ j, j < k →
    distSq (inp.ppos.getD k Vec3.zero) (inp.ppos.getD j Vec3.zero) * 1000000000000000000
      < 999999999 * 999999999 * (W * W)
  apart : ∀ k, k < inp.ppos.length → ∀ j, j < k →
    inp.atol * inp.atol < distSq (inp.ppos.getD k Vec3.zero) (inp.ppos.getD j Vec3.zero)

/-- two entries of a candidate tuple never denote the same unit-cell atom — UNCONDITIONALLY: the extension loop skips
    a near atom whose unit-cell atom is already in the partial match -/
theorem cand_distinct (inp : FindInput) (c : List Nat)
    (hc : CandOK inp.ppos inp.pelems inp.atol (fun k => inp.nearPosL.getD k Vec3.zero)
      (fun k => inp.nearElemL.getD k "") (fun k => inp.nearUcL.getD k 0) inp.near.length inp.ppos.length c)
    (k j : Nat) (hk : k < inp.ppos.length) (hj : j < k) :
    inp.near.getD (c.getD j 0) 0 % inp.pos.length ≠ inp.near.getD (c.getD k 0) 0 % inp.pos.length := by
  obtain ⟨-, hel, -, hdis⟩ := hc
  have hcj := (hel j (by omega)).1
  have hck := (hel k hk).1
  have h := hdis k hk j hj
  simp only [FindInput.nearUcL] at h
  rw [getD_map_lt inp.near _ _ 0 0 hcj, getD_map_lt inp.near _ _ 0 0 hck] at h
  exact h

/-- the pair-distance screen ALONE already separates the entries on the property's domain (`DistinctGuards`): what made
    the atoms distinct before the explicit test was added to the extension loop; still true of the model -/
theorem cand_distinct_by_screen (inp : FindInput) (W : Rat) (hg : DistinctGuards inp W) (c : List Nat)
    (hc : CandOK inp.ppos inp.pelems inp.atol (fun k => inp.nearPosL.getD k Vec3.zero)
      (fun k => inp.nearElemL.getD k "") (fun k => inp.nearUcL.getD k 0) inp.near.length inp.ppos.length c)
    (k j : Nat) (hk : k < inp.ppos.length) (hj : j < k) :
    inp.near.getD (c.getD j 0) 0 % inp.pos.length ≠ inp.near.getD (c.getD k 0) 0 % inp.pos.length := by
  obtain ⟨-, hel, hdist, -⟩ := hc
  intro heq
  have hcj := (hel j (by omega)).1
  have hck := (hel k hk).1
  have hd := hdist k hk j hj
  simp only [FindInput.nearPosL] at hd
  rw [getD_map_lt inp.near _ _ Vec3.zero 0 hcj, getD_map_lt inp.near _ _ Vec3.zero 0 hck] at hd
  obtain ⟨i1, j1, l1, -, -, -, -, hp1⟩ := allPositions_getD inp.cell inp.pos _ (near_getD_lt inp _ hcj)
  obtain ⟨i2, j2, l2, -, -, -, -, hp2⟩ := allPositions_getD inp.cell inp.pos _ (near_getD_lt inp _ hck)
  simp only [FindInput.allPos] at hd
  rw [hp1, hp2, heq] at hd
  have ha0 := distSq_nonneg (inp.ppos.getD k Vec3.zero) (inp.ppos.getD j Vec3.zero)
  by_cases hsame : i1 - i2 = 0 ∧ j1 - j2 = 0 ∧ l1 - l2 = 0
  · obtain ⟨h1, h2, h3⟩ := hsame
    have e1 : i1 = i2 := by omega
    have e2 : j1 = j2 := by omega
    have e3 : l1 = l2 := by omega
    rw [e1, e2, e3, distSq_self] at hd
    rw [not_isclose_zero _ _ (hg.apart k hk j hj)] at hd
    cases hd
  · have hb : W * W ≤ distSq (Vec3.add (inp.pos.getD (inp.near.getD (c.getD k 0) 0 % inp.pos.length) Vec3.zero) (inp.cell.lattice i1 j1 l1))
        (Vec3.add (inp.pos.getD (inp.near.getD (c.getD k 0) 0 % inp.pos.length) Vec3.zero) (inp.cell.lattice i2 j2 l2)) := by
      unfold distSq
      rw [sub_add_lattice]
      exact lattice_normSq_ge inp.cell W hg.wide _ _ _ hsame
    rw [not_isclose_far _ _ W inp.atol ha0 hg.atol_nonneg hg.two_atol hb (hg.diam k hk j hj) (hg.diam_rel k hk j hj)] at hd
    cases hd

end Mofun
