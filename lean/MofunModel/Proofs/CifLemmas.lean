/-
  CifLemmas.lean — helper lemmas for C15 (P1 CIF round trip).  Model: Model/Cif.lean.
  Parts: (1) wrap, (2) s.u. stripping, (3) labels, (4) print/parse of "%.4f", (5) lookups in a block with pairwise
  distinct data names, (6) columns of a loop written row by row (transposition), (7) a term loop read back.
-/
import MofunModel.Model.Cif
import Mathlib.Data.Rat.Floor
import Mathlib.Tactic.Ring
import Mathlib.Tactic.NormNum
import Mathlib.Tactic.Linarith

namespace Mofun.Cif
open Mofun

/-! ## (1) the wrap `x mod 1` -/

theorem rat_floor_eq (x : Rat) : x.floor = ⌊x⌋ := rfl

theorem fracPart_nonneg (x : Rat) : 0 ≤ fracPart x := by
  unfold fracPart; rw [rat_floor_eq]; have := Int.floor_le x; linarith

theorem fracPart_lt_one (x : Rat) : fracPart x < 1 := by
  unfold fracPart; rw [rat_floor_eq]; have := Int.lt_floor_add_one x; linarith

theorem fracPart_sub_int (x : Rat) : fracPart x - x = ((-x.floor : Int) : Rat) := by
  unfold fracPart; push_cast; ring

/-! ## (2) s.u. stripping -/

theorem stripGo_digits (buf d rest : List Char) (hd : ∀ c ∈ d, c.isDigit = true) :
    stripGo (some buf) (d ++ rest) = stripGo (some (buf ++ d)) rest := by
  induction d generalizing buf with
  | nil => simp
  | cons c cs ih =>
    have hc : c.isDigit = true := hd c (by simp)
    simp only [List.cons_append, stripGo, hc, if_true]
    rw [ih (buf ++ [c]) (fun x hx => hd x (by simp [hx]))]
    simp

theorem stripGo_group (d post : List Char) (hne : d ≠ []) (hd : ∀ c ∈ d, c.isDigit = true) :
    stripGo none ('(' :: (d ++ ')' :: post)) = stripGo none post := by
  simp only [stripGo, if_true]
  rw [stripGo_digits [] d _ hd]
  have : (')' : Char).isDigit = false := by decide
  simp [stripGo, this, hne]

theorem stripGo_noparen (pre s : List Char) (h : '(' ∉ pre) :
    stripGo none (pre ++ s) = pre ++ stripGo none s := by
  induction pre with
  | nil => rfl
  | cons c cs ih =>
    have hc : c ≠ '(' := fun e => h (by simp [e])
    have hcs : '(' ∉ cs := fun e => h (by simp [e])
    simp [stripGo, hc, ih hcs]

theorem stripSuL_group (pre d post : List Char) (hp : '(' ∉ pre) (hne : d ≠ []) (hd : ∀ c ∈ d, c.isDigit = true) :
    stripSuL (pre ++ '(' :: (d ++ ')' :: post)) = pre ++ stripSuL post := by
  unfold stripSuL
  rw [stripGo_noparen pre _ hp, stripGo_group d post hne hd]

theorem stripSuL_id (s : List Char) (h : '(' ∉ s) : stripSuL s = s := by
  have := stripGo_noparen s [] h
  simpa [stripSuL, stripGo] using this

theorem stripSuL_idem (s : List Char) (h : '(' ∉ stripSuL s) : stripSuL (stripSuL s) = stripSuL s :=
  stripSuL_id _ h

/-- strings made of parenthesis-free characters and complete `(digits)` groups -/
inductive SuForm : List Char → Prop
  | nil : SuForm []
  | char (c : Char) (s : List Char) : c ≠ '(' → SuForm s → SuForm (c :: s)
  | group (d s : List Char) : d ≠ [] → (∀ c ∈ d, c.isDigit = true) → SuForm s → SuForm ('(' :: (d ++ ')' :: s))

theorem stripSuL_noparen_of_form (s : List Char) (h : SuForm s) : '(' ∉ stripSuL s := by
  induction h with
  | nil => simp [stripSuL, stripGo]
  | char c s hc _ ih =>
    have : stripSuL (c :: s) = c :: stripSuL s := by simp [stripSuL, stripGo, hc]
    rw [this]; intro hm
    rcases List.mem_cons.mp hm with e | e
    · exact hc e.symm
    · exact ih e
  | group d s hne hd _ ih =>
    have : stripSuL ('(' :: (d ++ ')' :: s)) = stripSuL s := stripGo_group d s hne hd
    rw [this]; exact ih

example : stripSu "1.234(5)" = "1.234" := by decide
example : stripSu "((1)2)" = "(2)" ∧ stripSu "(2)" = "" := by decide

/-! ## (3) labels -/

def NoDigitEnd (l : List Char) : Prop := ∀ c, l.getLast? = some c → c.isDigit = false

theorem endsWithDigit_false_iff (e : String) : endsWithDigit e = false ↔ NoDigitEnd e.toList := by
  unfold endsWithDigit NoDigitEnd
  cases h : e.toList.getLast? with
  | none => simp
  | some c => simp

theorem append_digits_inj_aux (e1 e2 d1 d2 : List Char) (_h : e1 ++ d1 = e2 ++ d2)
    (hd1 : ∀ c ∈ d1, c.isDigit = true) (he2 : NoDigitEnd e2) (a : List Char)
    (h1 : e2 = e1 ++ a) (h2 : d1 = a ++ d2) : a = [] := by
  cases hA : a.getLast? with
  | none => simpa using hA
  | some c =>
    exfalso
    have hne : a ≠ [] := by intro e; simp [e] at hA
    have hc : c ∈ a := List.mem_of_getLast? hA
    have : e2.getLast? = some c := by
      rw [h1, List.getLast?_append, hA]; rfl
    have hnd := he2 c this
    have : c.isDigit = true := hd1 c (by rw [h2]; simp [hc])
    simp [hnd] at this

theorem append_digits_inj (e1 e2 d1 d2 : List Char) (h : e1 ++ d1 = e2 ++ d2)
    (hd1 : ∀ c ∈ d1, c.isDigit = true) (hd2 : ∀ c ∈ d2, c.isDigit = true)
    (he1 : NoDigitEnd e1) (he2 : NoDigitEnd e2) : e1 = e2 ∧ d1 = d2 := by
  rcases List.append_eq_append_iff.mp h with ⟨a, h1, h2⟩ | ⟨a, h1, h2⟩
  · have := append_digits_inj_aux e1 e2 d1 d2 h hd1 he2 a h1 h2
    subst this; simp at h1 h2; exact ⟨h1.symm, h2⟩
  · have := append_digits_inj_aux e2 e1 d2 d1 h.symm hd2 he1 a h1 h2
    subst this; simp at h1 h2; exact ⟨h1, h2.symm⟩

theorem toDigits_inj {n m : Nat} (h : Nat.toDigits 10 n = Nat.toDigits 10 m) : n = m := by
  have := congrArg (fun l => Nat.ofDigitChars 10 l 0) h
  simpa using this

theorem natStr_toList (n : Nat) : (toString n).toList = Nat.toDigits 10 n := by
  rw [Nat.toString_eq_repr, Nat.toList_repr]

theorem label_inj (e1 e2 : String) (n m : Nat) (h1 : endsWithDigit e1 = false) (h2 : endsWithDigit e2 = false)
    (h : e1 ++ toString n = e2 ++ toString m) : e1 = e2 ∧ n = m := by
  have ht := congrArg String.toList h
  simp only [String.toList_append, natStr_toList] at ht
  have := append_digits_inj _ _ _ _ ht
    (fun c hc => Nat.isDigit_of_mem_toDigits (by decide) (by decide) hc)
    (fun c hc => Nat.isDigit_of_mem_toDigits (by decide) (by decide) hc)
    ((endsWithDigit_false_iff e1).mp h1) ((endsWithDigit_false_iff e2).mp h2)
  exact ⟨String.toList_inj.mp this.1, toDigits_inj this.2⟩

theorem mem_labelsFrom (pre es : List String) (l : String) (h : l ∈ labelsFrom pre es) :
    ∃ e k, l = e ++ toString (k + 1) ∧ pre.count e ≤ k ∧ e ∈ es := by
  induction es generalizing pre with
  | nil => simp [labelsFrom] at h
  | cons e es ih =>
    simp only [labelsFrom, List.mem_cons] at h
    rcases h with h | h
    · exact ⟨e, pre.count e, h, Nat.le_refl _, by simp⟩
    · obtain ⟨e', k, hl, hk, he'⟩ := ih (e :: pre) h
      refine ⟨e', k, hl, ?_, by simp [he']⟩
      have : pre.count e' ≤ (e :: pre).count e' := by
        rw [List.count_cons]; omega
      omega

theorem labelsFrom_nodup (pre es : List String) (h : ∀ e ∈ es, endsWithDigit e = false) :
    (labelsFrom pre es).Nodup := by
  induction es generalizing pre with
  | nil => simp [labelsFrom]
  | cons e es ih =>
    simp only [labelsFrom, List.nodup_cons]
    refine ⟨?_, ih (e :: pre) (fun x hx => h x (by simp [hx]))⟩
    intro hm
    obtain ⟨e', k, hl, hk, he'⟩ := mem_labelsFrom _ _ _ hm
    have := label_inj e e' _ _ (h e (by simp)) (h e' (by simp [he'])) hl
    obtain ⟨rfl, hn⟩ := this
    rw [List.count_cons] at hk
    simp at hk
    omega

theorem labels_nodup (els : List String) (h : ∀ e ∈ els, endsWithDigit e = false) : (labels els).Nodup :=
  labelsFrom_nodup [] els h

example : ¬ (labels (["C1"] ++ List.replicate 11 "C")).Nodup := by decide

/-! ## (4) print / parse -/

theorem takeWhile_all {α} (p : α → Bool) (l : List α) (h : ∀ c ∈ l, p c = true) : l.takeWhile p = l := by
  induction l with
  | nil => rfl
  | cons c cs ih => simp [h c (by simp), ih (fun x hx => h x (by simp [hx]))]

theorem dropWhile_all {α} (p : α → Bool) (l : List α) (h : ∀ c ∈ l, p c = true) : l.dropWhile p = [] := by
  induction l with
  | nil => rfl
  | cons c cs ih => simp [h c (by simp), ih (fun x hx => h x (by simp [hx]))]

theorem digit_not_sign (c : Char) (h : c.isDigit = true) : c ≠ '-' ∧ c ≠ '+' ∧ c ≠ '.' ∧ c ≠ 'e' ∧ c ≠ 'E' ∧ c ≠ '(' := by
  refine ⟨?_, ?_, ?_, ?_, ?_, ?_⟩ <;> (rintro rfl; revert h; decide)

theorem parseSign_digit (c : Char) (r : List Char) (h : c.isDigit = true) : parseSign (c :: r) = (false, c :: r) := by
  obtain ⟨h1, h2, _⟩ := digit_not_sign c h
  unfold parseSign
  split
  · rename_i heq; simp at heq; exact absurd heq.1 h1
  · rename_i heq; simp at heq; exact absurd heq.1 h2
  · rfl

theorem toDigits_isDigit (n : Nat) : ∀ c ∈ Nat.toDigits 10 n, c.isDigit = true :=
  fun _ hc => Nat.isDigit_of_mem_toDigits (by decide) (by decide) hc

theorem pad4_length (k : Nat) (h : k < 10000) : (pad4 k).length = 4 := by
  have : (Nat.toDigits 10 k).length ≤ 4 := (Nat.length_toDigits_le_iff (by decide) (by decide)).mpr (by simpa using h)
  simp [pad4]; omega

theorem pad4_isDigit (k : Nat) : ∀ c ∈ pad4 k, c.isDigit = true := by
  intro c hc
  simp only [pad4, List.mem_append, List.mem_replicate] at hc
  rcases hc with ⟨_, rfl⟩ | hc
  · decide
  · exact toDigits_isDigit k c hc

theorem pad4_val (k : Nat) : Nat.ofDigitChars 10 (pad4 k) 0 = k := by
  simp [pad4, Nat.ofDigitChars_append]

/-- the digits `ip.fp` parse to (all digits, number of fractional digits) -/
theorem parseMant_point (ip fp : List Char) (hip : ∀ c ∈ ip, c.isDigit = true) (hfp : ∀ c ∈ fp, c.isDigit = true)
    (hne : ip ≠ []) : parseMant (ip ++ '.' :: fp) = some (digitsVal (ip ++ fp), fp.length) := by
  unfold parseMant
  have hdot : ('.' : Char).isDigit = false := by decide
  rw [List.takeWhile_append_of_pos hip, List.dropWhile_append_of_pos hip]
  simp only [List.takeWhile_cons, List.dropWhile_cons, hdot]
  have : allDigits fp = true := by simpa [allDigits] using hfp
  simp [this, hne]

theorem noE_of_digits_point (ip fp : List Char) (hip : ∀ c ∈ ip, c.isDigit = true) (hfp : ∀ c ∈ fp, c.isDigit = true) :
    ∀ c ∈ ip ++ '.' :: fp, (!isE c) = true := by
  intro c hc
  simp only [List.mem_append, List.mem_cons] at hc
  have : c ≠ 'e' ∧ c ≠ 'E' := by
    rcases hc with hc | rfl | hc
    · have := digit_not_sign c (hip c hc); exact ⟨this.2.2.2.1, this.2.2.2.2.1⟩
    · decide
    · have := digit_not_sign c (hfp c hc); exact ⟨this.2.2.2.1, this.2.2.2.2.1⟩
  simp [isE, this.1, this.2]

theorem parseFloatL_unsigned (ip fp : List Char) (hip : ∀ c ∈ ip, c.isDigit = true) (hfp : ∀ c ∈ fp, c.isDigit = true)
    (hne : ip ≠ []) (neg : Bool) :
    parseFloatL ((if neg then ['-'] else []) ++ (ip ++ '.' :: fp)) =
      some (let q : Rat := (digitsVal (ip ++ fp) : Rat) / ((10 ^ fp.length : Nat) : Rat); if neg then -q else q) := by
  have hsign : parseSign ((if neg then ['-'] else []) ++ (ip ++ '.' :: fp)) = (neg, ip ++ '.' :: fp) := by
    cases neg with
    | true => rfl
    | false =>
      cases ip with
      | nil => exact absurd rfl hne
      | cons c cs => exact parseSign_digit c _ (hip c (by simp))
  have hE := noE_of_digits_point ip fp hip hfp
  have htw : (ip ++ '.' :: fp).takeWhile (fun c => !isE c) = ip ++ '.' :: fp := by
    exact takeWhile_all _ _ hE
  have hdw : (ip ++ '.' :: fp).dropWhile (fun c => !isE c) = [] := by
    exact dropWhile_all _ _ hE
  unfold parseFloatL
  simp only [hsign, htw, hdw, parseMant_point ip fp hip hfp hne]
  simp [pow10]

theorem mag4_split (m : Nat) :
    digitsVal (Nat.toDigits 10 (m / 10000) ++ pad4 (m % 10000)) = m := by
  unfold digitsVal
  rw [Nat.ofDigitChars_append, Nat.ofDigitChars_eq_ofDigitChars_zero, pad4_val, Nat.ofDigitChars_ten_toDigits,
    pad4_length _ (Nat.mod_lt _ (by decide))]
  omega

/-- **print / parse**: reading back what `"%.4f"` printed gives the fixed-point value -/
theorem parse_fmt4 (x : Rat) : parseFloatL (fmt4L x) = some (fix4 x) := by
  unfold fmt4L
  have h := parseFloatL_unsigned (Nat.toDigits 10 (mag4 x / 10000)) (pad4 (mag4 x % 10000))
    (toDigits_isDigit _) (pad4_isDigit _) Nat.toDigits_ne_nil (decide (x < 0))
  have hs : (if decide (x < 0) = true then ['-'] else []) = (if x < 0 then ['-'] else ([] : List Char)) := by
    by_cases hx : x < 0 <;> simp [hx]
  rw [hs] at h
  rw [List.append_assoc, h, mag4_split, pad4_length _ (Nat.mod_lt _ (by decide))]
  unfold fix4 fix4i
  by_cases hx : x < 0
  · simp [hx]; ring
  · simp [hx]


/-! ### rounding error of the printed number -/

theorem roundHalfEven_close (y : Rat) (hy : 0 ≤ y) :
    (roundHalfEven y : Rat) - y ≤ 1 / 2 ∧ y - (roundHalfEven y : Rat) ≤ 1 / 2 := by
  have hfl : 0 ≤ y.floor := by rw [rat_floor_eq]; exact Int.floor_nonneg.mpr hy
  have hcast : ((y.floor.toNat : Nat) : Rat) = (y.floor : Rat) := by
    have : ((y.floor.toNat : Nat) : Int) = y.floor := Int.toNat_of_nonneg hfl
    exact_mod_cast this
  have h1 : (y.floor : Rat) ≤ y := by rw [rat_floor_eq]; exact Int.floor_le y
  have h2 : y < (y.floor : Rat) + 1 := by rw [rat_floor_eq]; exact Int.lt_floor_add_one y
  unfold roundHalfEven
  simp only
  split
  · rename_i h; rw [hcast] at h ⊢; constructor <;> linarith
  · rename_i h
    split
    · rename_i h'; rw [hcast] at h h'; push_cast; rw [hcast]; constructor <;> linarith
    · rename_i h'
      rw [hcast] at h h'
      split
      · rw [hcast]; constructor <;> linarith
      · push_cast; rw [hcast]; constructor <;> linarith

/-- the printed number is within half a unit of the fourth decimal of the number -/
theorem fix4_close (x : Rat) : fix4 x - x ≤ 1 / 20000 ∧ x - fix4 x ≤ 1 / 20000 := by
  unfold fix4 fix4i mag4
  by_cases hx : x < 0
  · have := roundHalfEven_close (-x * 10000) (by nlinarith)
    simp only [hx, if_true]
    push_cast
    constructor <;> linarith [this.1, this.2]
  · have := roundHalfEven_close (x * 10000) (by nlinarith [not_lt.mp hx])
    simp only [hx, if_false]
    push_cast
    constructor <;> linarith [this.1, this.2]

/-! ## (5)-(7) block lookups, loops, term loops -/

/-! ### indexOf? -/
theorem indexOf?_none_iff {α} [DecidableEq α] (l : List α) (x : α) : indexOf? l x = none ↔ x ∉ l := by
  induction l with
  | nil => simp [indexOf?]
  | cons y ys ih =>
    by_cases h : y = x
    · simp [indexOf?, h]
    · have h' : ¬ x = y := fun e => h e.symm
      simp [indexOf?, h, h', ih]

theorem indexOf?_getElem {α} [DecidableEq α] (l : List α) (hnd : l.Nodup) (i : Nat) (h : i < l.length) :
    indexOf? l l[i] = some i := by
  induction l generalizing i with
  | nil => simp at h
  | cons y ys ih =>
    rw [List.nodup_cons] at hnd
    cases i with
    | zero => simp [indexOf?]
    | succ j =>
      have hj : j < ys.length := by simpa using h
      have hne : ¬ y = ys[j] := fun e => hnd.1 (e ▸ List.getElem_mem hj)
      simp [indexOf?, hne, ih hnd.2 j hj]

theorem indexOf?_lt {α} [DecidableEq α] (l : List α) (x : α) (j : Nat) (h : indexOf? l x = some j) :
    ∃ hj : j < l.length, l[j] = x := by
  induction l generalizing j with
  | nil => simp [indexOf?] at h
  | cons y ys ih =>
    by_cases hy : y = x
    · simp [indexOf?, hy] at h; subst h; exact ⟨by simp, by simpa using hy⟩
    · simp only [indexOf?, hy, if_false, Option.map_eq_some_iff] at h
      obtain ⟨k, hk, rfl⟩ := h
      obtain ⟨hk', e⟩ := ih k hk
      exact ⟨by simpa using hk', by simpa using e⟩

/-! ### lookups in a block whose data names are pairwise distinct -/

theorem Entry.get?_none (e : Entry) (t : String) (h : t ∉ e.tags) : e.get? t = none := by
  cases e with
  | item t' v =>
    have : ¬ t' = t := fun e => h (by simp [Entry.tags, e])
    simp [Entry.get?, this]
  | loop ts rows =>
    have : indexOf? ts t = none := (indexOf?_none_iff ts t).mpr (by simpa [Entry.tags] using h)
    simp [Entry.get?, this]

theorem Block.get?_none (b : Block) (t : String) (h : t ∉ b.tags) : b.get? t = none := by
  induction b with
  | nil => rfl
  | cons e es ih =>
    have h1 : t ∉ e.tags := fun hm => h (by simp [Block.tags, hm])
    have h2 : t ∉ Block.tags es := fun hm => h (by
      simp only [Block.tags, List.flatMap_cons, List.mem_append]; exact Or.inr hm)
    have := ih h2
    simp only [Block.get?] at this ⊢
    simp [Entry.get?_none e t h1, this]

theorem Block.has_false (b : Block) (t : String) (h : t ∉ b.tags) : b.has t = false := by
  simp [Block.has, Block.get?_none b t h]

theorem Block.get?_of_mem (b : Block) (hnd : b.tags.Nodup) (e : Entry) (he : e ∈ b) (t : String) (ht : t ∈ e.tags)
    (v : Val) (hv : e.get? t = some v) : b.get? t = some v := by
  induction b with
  | nil => simp at he
  | cons e' es ih =>
    simp only [Block.tags, List.flatMap_cons] at hnd
    rw [List.nodup_append] at hnd
    rcases List.mem_cons.mp he with rfl | he'
    · simp [Block.get?, hv]
    · have hmem : t ∈ Block.tags es := by
        simp only [Block.tags, List.mem_flatMap]; exact ⟨e, he', ht⟩
      have hnot : t ∉ e'.tags := fun hm => (hnd.2.2 t hm t hmem) rfl
      have := ih hnd.2.1 he'
      simp only [Block.get?] at this ⊢
      simp [Entry.get?_none e' t hnot, this]

theorem Block.loopTags?_of_mem (b : Block) (hnd : b.tags.Nodup) (ts : List String) (rows : List (List String))
    (he : Entry.loop ts rows ∈ b) (t : String) (ht : t ∈ ts) : b.loopTags? t = some ts := by
  induction b with
  | nil => simp at he
  | cons e' es ih =>
    simp only [Block.tags, List.flatMap_cons] at hnd
    rw [List.nodup_append] at hnd
    rcases List.mem_cons.mp he with rfl | he'
    · simp [Block.loopTags?, ht]
    · have hmem : t ∈ Block.tags es := by
        simp only [Block.tags, List.mem_flatMap]; exact ⟨_, he', by simpa [Entry.tags] using ht⟩
      have hnot : t ∉ e'.tags := fun hm => (hnd.2.2 t hm t hmem) rfl
      have := ih hnd.2.1 he'
      simp only [Block.loopTags?] at this ⊢
      cases e' with
      | item t' v => rw [List.findSome?_cons]; exact this
      | loop ts' rows' =>
        have hc : ts'.contains t = false := by simpa [Entry.tags] using hnot
        rw [List.findSome?_cons]; simp only [hc]; exact this

theorem nodup'_iff {α} [DecidableEq α] (l : List α) : l.Nodup' = true ↔ l.Nodup := by
  induction l with
  | nil => simp [List.Nodup']
  | cons x xs ih => simp [List.Nodup', ih]


theorem allSome_map_some {α β} (l : List α) (f : α → Option β) (g : α → β) (h : ∀ x ∈ l, f x = some (g x)) :
    allSome (l.map f) = some (l.map g) := by
  induction l with
  | nil => rfl
  | cons x xs ih =>
    simp [allSome, h x (by simp), ih (fun y hy => h y (by simp [hy]))]

theorem getD_map_of_lt {α β} (l : List α) (f : α → β) (i : Nat) (d : β) (h : i < l.length) :
    (l.map f).getD i d = f l[i] := by
  simp [List.getD, h]

/-- transposition: reading `n` rows back out of the columns `js` of `rows` -/
theorem transpose_cols (rows : List (List String)) (js : List Nat) :
    (List.range rows.length).map (fun i => (js.map (fun j => rows.map (fun r => r.getD j ""))).map (fun c => c.getD i ""))
      = rows.map (fun r => js.map (fun j => r.getD j "")) := by
  apply List.ext_getElem
  · simp
  · intro i h1 h2
    have hi : i < rows.length := by simpa using h1
    simp only [List.getElem_map, List.getElem_range, List.map_map]
    apply List.map_congr_left
    intro j _
    simp [Function.comp, List.getElem?_eq_getElem hi]

theorem range_map_getD_left (fx ex : List String) :
    (List.range fx.length).map (fun k => (fx ++ ex).getD k "") = fx := by
  apply List.ext_getElem
  · simp
  · intro i h1 h2
    have hi : i < fx.length := by simpa using h1
    simp [List.getD, List.getElem?_append_left hi, hi]

theorem range_map_getD_right (fx ex : List String) :
    (List.range ex.length).map (fun k => (fx ++ ex).getD (fx.length + k) "") = ex := by
  apply List.ext_getElem
  · simp
  · intro i h1 h2
    have hi : i < ex.length := by simpa using h1
    simp [List.getD, List.getElem?_append_right, hi]


theorem range_map_getD_self (l : List String) : (List.range l.length).map (fun k => l.getD k "") = l := by
  have := range_map_getD_left l []
  simpa using this

/-- rows back out of the columns of a mapped list -/
theorem rows_of_cols {α} (L : List α) (g : α → List String) (w : Nat) (hg : ∀ x ∈ L, (g x).length = w) :
    (List.range L.length).map (fun i => ((List.range w).map (fun k => L.map (fun x => (g x).getD k ""))).map (fun c => c.getD i ""))
      = L.map g := by
  apply List.ext_getElem
  · simp
  · intro i h1 h2
    have hi : i < L.length := by simpa using h1
    simp only [List.getElem_map, List.getElem_range, List.map_map]
    have hw := hg L[i] (List.getElem_mem hi)
    conv => rhs; rw [← range_map_getD_self (g L[i]), hw]
    apply List.map_congr_left
    intro k _
    simp [Function.comp, List.getElem?_eq_getElem hi]

theorem entry_tags_nodup (b : Block) (hnd : b.tags.Nodup) (e : Entry) (he : e ∈ b) : e.tags.Nodup := by
  induction b with
  | nil => simp at he
  | cons e' es ih =>
    simp only [Block.tags, List.flatMap_cons] at hnd
    rw [List.nodup_append] at hnd
    rcases List.mem_cons.mp he with rfl | he'
    · exact hnd.1
    · exact ih hnd.2.1 he'

theorem Block.col?_of_index (b : Block) (hnd : b.tags.Nodup) (ts : List String) (rows : List (List String))
    (he : Entry.loop ts rows ∈ b) (j : Nat) (hj : j < ts.length) :
    b.col? ts[j] = some (rows.map (fun r => r.getD j "")) := by
  have hts : ts.Nodup := by simpa [Entry.tags] using entry_tags_nodup b hnd _ he
  have := Block.get?_of_mem b hnd _ he ts[j] (by simp [Entry.tags]) (Val.column (rows.map (fun r => r.getD j "")))
    (by simp [Entry.get?, indexOf?_getElem ts hts j hj])
  simp [Block.col?, this]

section Loop
variable {α : Type} (b : Block) (hnd : b.tags.Nodup) (fixed xl : List String) (L : List α) (fx ex : α → List String)
  (hmem : Entry.loop (fixed ++ xl) (L.map (fun x => fx x ++ ex x)) ∈ b)
  (hfx : ∀ x ∈ L, (fx x).length = fixed.length)

include hnd hmem hfx
set_option linter.unusedSectionVars false

theorem loop_fixed_col (j : Nat) (hj : j < fixed.length) :
    b.col? fixed[j] = some (L.map (fun x => (fx x).getD j "")) := by
  have hj' : j < (fixed ++ xl).length := by simp; omega
  have e1 : fixed[j] = (fixed ++ xl)[j] := by simp [List.getElem_append_left hj]
  rw [e1, Block.col?_of_index b hnd _ _ hmem j hj', List.map_map]
  congr 1
  apply List.map_congr_left
  intro x hx
  have := hfx x hx
  simp [Function.comp, List.getD, List.getElem?_append_left (by omega : j < (fx x).length)]

theorem loop_fixed_cols :
    allSome (fixed.map b.col?) = some ((List.range fixed.length).map (fun j => L.map (fun x => (fx x).getD j ""))) := by
  have : fixed.map b.col? = (List.range fixed.length).map (fun j => some (L.map (fun x => (fx x).getD j ""))) := by
    apply List.ext_getElem
    · simp
    · intro j h1 h2
      have hj : j < fixed.length := by simpa using h1
      have hj' : j < (fixed ++ xl).length := by simp; omega
      have e1 : fixed[j] = (fixed ++ xl)[j] := by simp [List.getElem_append_left hj]
      simp only [List.getElem_map, List.getElem_range]
      rw [e1, Block.col?_of_index b hnd _ _ hmem j hj', List.map_map]
      congr 1
      apply List.map_congr_left
      intro x hx
      have := hfx x hx
      simp [Function.comp, List.getD, List.getElem?_append_left (by omega : j < (fx x).length)]
  rw [this]
  exact allSome_map_some _ _ _ (fun _ _ => rfl)

theorem loop_extra_cols :
    allSome (xl.map b.col?) = some ((List.range xl.length).map (fun k => L.map (fun x => (ex x).getD k ""))) := by
  have : xl.map b.col? = (List.range xl.length).map (fun k => some (L.map (fun x => (ex x).getD k ""))) := by
    apply List.ext_getElem
    · simp
    · intro k h1 h2
      have hk : k < xl.length := by simpa using h1
      have hk' : fixed.length + k < (fixed ++ xl).length := by simp; omega
      have e1 : xl[k] = (fixed ++ xl)[fixed.length + k] := by simp [List.getElem_append_right]
      simp only [List.getElem_map, List.getElem_range]
      rw [e1, Block.col?_of_index b hnd _ _ hmem _ hk', List.map_map]
      congr 1
      apply List.map_congr_left
      intro x hx
      have := hfx x hx
      simp [Function.comp, List.getD, List.getElem?_append_right, this]
  rw [this]
  exact allSome_map_some _ _ _ (fun _ _ => rfl)

theorem loop_has (t : String) (ht : t ∈ fixed ++ xl) : b.has t = true := by
  obtain ⟨j, hj, rfl⟩ := List.getElem_of_mem ht
  have := Block.col?_of_index b hnd _ _ hmem j hj
  unfold Block.col? at this
  unfold Block.has
  cases h : b.get? (fixed ++ xl)[j] with
  | none => simp [h] at this
  | some v => rfl

theorem loop_loopTags (t : String) (ht : t ∈ fixed ++ xl) : b.loopTags? t = some (fixed ++ xl) :=
  Block.loopTags?_of_mem b hnd _ _ hmem t ht

end Loop


theorem minLen_const (cols : List (List String)) (n : Nat) (hne : cols ≠ []) (h : ∀ c ∈ cols, c.length = n) :
    minLen cols = n := by
  cases cols with
  | nil => exact absurd rfl hne
  | cons c cs =>
    have hc : c.length = n := h c (by simp)
    have : ∀ (cs : List (List String)) (m : Nat), m = n → (∀ c ∈ cs, c.length = n) →
        cs.foldl (fun m c => min m c.length) m = n := by
      intro cs
      induction cs with
      | nil => intro m hm _; simpa using hm
      | cons d ds ih =>
        intro m hm hds
        simp only [List.foldl_cons]
        apply ih
        · rw [hm, hds d (by simp)]; simp
        · intro c hc; exact hds c (by simp [hc])
    exact this cs _ hc (fun c hc' => h c (by simp [hc']))

theorem resolveRow_labels (labs : List String) (hl : labs.Nodup) (atoms : List Nat) (h : ∀ i ∈ atoms, i < labs.length) :
    resolveRow labs (atoms.map (fun i => labs.getD i "")) = some atoms := by
  unfold resolveRow
  rw [List.map_map]
  have := allSome_map_some atoms ((fun l => indexOf? labs l) ∘ fun i => labs.getD i "") id (by
    intro i hi
    have hi' := h i hi
    simp [Function.comp, List.getD, List.getElem?_eq_getElem hi', indexOf?_getElem labs hl i hi'])
  simpa using this

theorem filter_not_contains_append (tags xl : List String) (hnd : (tags ++ xl).Nodup) :
    (tags ++ xl).filter (fun t => !tags.contains t) = xl := by
  rw [List.nodup_append] at hnd
  rw [List.filter_append]
  have h1 : tags.filter (fun t => !tags.contains t) = [] := by
    rw [List.filter_eq_nil_iff]; intro t ht; simp [ht]
  have h2 : xl.filter (fun t => !tags.contains t) = xl := by
    rw [List.filter_eq_self]; intro t ht
    have : t ∉ tags := fun hm => hnd.2.2 t hm t ht rfl
    simp [this]
  rw [h1, h2]; rfl

theorem rowsOf_cols {α} (L : List α) (g : α → List String) (w : Nat) (hg : ∀ x ∈ L, (g x).length = w) :
    rowsOf L.length ((List.range w).map (fun k => L.map (fun x => (g x).getD k ""))) = some (L.map g) := by
  unfold rowsOf
  have : ((List.range w).map (fun k => L.map (fun x => (g x).getD k ""))).all (fun c => c.length == L.length) = true := by
    simp
  rw [if_pos this, rows_of_cols L g w hg]

/-- a term loop written by `saveCif` is read back as the same tuples, with placeholder types and the extra columns -/
theorem loadTerms_loop (b : Block) (hnd : b.tags.Nodup) (labs : List String) (hl : labs.Nodup)
    (tags xl : List String) (terms : List Term) (htags : tags ≠ [])
    (hmem : Entry.loop (tags ++ xl) (terms.map (fun t => t.atoms.map (fun i => labs.getD i "") ++ t.extra)) ∈ b)
    (har : ∀ t ∈ terms, t.atoms.length = tags.length ∧ ∀ i ∈ t.atoms, i < labs.length)
    (hw : ∀ t ∈ terms, t.extra.length = xl.length) :
    loadTerms b labs tags = some { terms := renumber terms, coeffs := [], xlabels := xl } := by
  have hfx : ∀ t ∈ terms, (t.atoms.map (fun i => labs.getD i "")).length = tags.length := by
    intro t ht; simpa using (har t ht).1
  have hts : (tags ++ xl).Nodup := by simpa [Entry.tags] using entry_tags_nodup b hnd _ hmem
  have hall : b.hasAll tags = true := by
    unfold Block.hasAll
    rw [List.all_eq_true]; intro t ht
    exact loop_has b hnd tags xl terms _ _ hmem hfx t (by simp [ht])
  have hcols := loop_fixed_cols b hnd tags xl terms _ _ hmem hfx
  have hx := loop_extra_cols b hnd tags xl terms _ _ hmem hfx
  have hlt : b.loopTags? (tags.headD "") = some (tags ++ xl) := by
    apply loop_loopTags b hnd tags xl terms _ _ hmem hfx
    cases tags with
    | nil => exact absurd rfl htags
    | cons t ts => simp
  have hm : minLen ((List.range tags.length).map (fun j => terms.map (fun x => (x.atoms.map (fun i => labs.getD i "")).getD j "")))
      = terms.length := by
    apply minLen_const
    · cases tags with
      | nil => exact absurd rfl htags
      | cons t ts => simp [List.range_succ_eq_map]
    · intro c hc; simp only [List.mem_map] at hc; obtain ⟨j, _, rfl⟩ := hc; simp
  unfold loadTerms
  simp only [hall, Bool.not_true, Bool.false_eq_true, if_false, hcols, hx, hlt, hm, Option.bind_eq_bind, Option.bind_some,
    filter_not_contains_append tags xl hts]
  rw [rows_of_cols terms _ tags.length hfx, List.map_map]
  have hidx : allSome (terms.map (resolveRow labs ∘ fun t => t.atoms.map (fun i => labs.getD i ""))) = some (terms.map (·.atoms)) :=
    allSome_map_some _ _ _ (fun t ht => resolveRow_labels labs hl t.atoms (har t ht).2)
  rw [hidx, rowsOf_cols terms (·.extra) xl.length hw]
  simp only [Option.bind_some, Option.pure_def, Option.some.injEq]
  congr 1
  unfold renumber
  rw [List.zip_map']
  apply List.ext_getElem <;> simp


end Mofun.Cif
