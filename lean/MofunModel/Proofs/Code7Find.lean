/-
  Code7Find.lean — helper lemmas for the seventh translator batch (Generated/Code.lean: findGroupKey, findMatchTuplesInUc,
  removeDuplicatesFirst, atomsByTypeDict, findAxisHints) in the vocabulary of Model/Find.lean.  Core Lean only.
-/
import MofunModel.Proofs.Code2Find

namespace Mofun.Code7Find
open Mofun Mofun.Generated Mofun.Code2Find
set_option linter.unusedSimpArgs false

/-! ### `near_indices[k] % len(structure)` over a tuple -/

theorem intMod_nat (a n : Nat) (hn : n ≠ 0) : Py.intMod? ((a : Nat) : Int) ((n : Nat) : Int) = some (Int.ofNat (a % n)) := by
  unfold Py.intMod?
  have : ¬ ((n : Int) = 0) := by omega
  simp [this, hn, Int.fmod_eq_emod_of_nonneg]

/-- the comprehension `[near_indices[k] % len(structure) for k in l]` for a tuple inside the near list: never raises -/
theorem mapM_uc (n : Nat) (hn : n ≠ 0) (near l : List Nat) (h : ∀ k ∈ l, k < near.length) :
    Py.listMapM? l (fun i => (do let t1 ← (near[i]?); let t2 ← (Py.intMod? ((t1 : Nat) : Int) ((n : Nat) : Int)); pure t2)) =
      some ((l.map (fun k => near.getD k 0 % n)).map Int.ofNat) := by
  simp only [bind, pure, Option.bind_eq_bind, intMod_nat _ n hn]
  induction l with
  | nil => rfl
  | cons k ks ih =>
    have hk := h k (by simp)
    have ih' := ih (fun j hj => h j (by simp [hj]))
    simp only [Py.listMapM?, List.getElem?_eq_getElem hk, Option.bind_some, ih', List.map_cons]
    simp [List.getD_eq_getElem?_getD, hk]

/-! ### `sorted` on naturals seen as python ints -/

theorem insertAsc_ofNat (x : Nat) (l : List Nat) :
    Py.insertAsc (Int.ofNat x) (l.map Int.ofNat) = (insertNat x l).map Int.ofNat := by
  induction l with
  | nil => rfl
  | cons y ys ih =>
    simp only [List.map_cons, Py.insertAsc, insertNat]
    by_cases hxy : x ≤ y
    · have : Int.ofNat x ≤ Int.ofNat y := Int.ofNat_le.mpr hxy
      simp [hxy, this]
    · have : ¬ Int.ofNat x ≤ Int.ofNat y := fun h => hxy (Int.ofNat_le.mp h)
      simp only [hxy, this, if_false]
      exact congrArg _ ih

theorem sortedAsc_ofNat (l : List Nat) : Py.sortedAsc (l.map Int.ofNat) = (sortNat l).map Int.ofNat := by
  unfold Py.sortedAsc sortNat
  induction l with
  | nil => rfl
  | cons x xs ih => simp only [List.map_cons, List.foldr_cons, ih, insertAsc_ofNat]

/-! ### groups are never empty; the first member of every group -/

theorem groupStep_nonempty {α κ} [DecidableEq κ] (key : α → κ) (acc : List (κ × List α)) (x : α)
    (h : ∀ p ∈ acc, p.2 ≠ []) : ∀ p ∈ groupStep key acc x, p.2 ≠ [] := by
  intro p hp
  unfold groupStep at hp
  simp only [] at hp
  split at hp
  · rcases List.mem_map.mp hp with ⟨q, hq, rfl⟩
    split
    · simp
    · exact h q hq
  · rcases List.mem_append.mp hp with hq | hq
    · exact h p hq
    · simp at hq; subst hq; simp

theorem foldl_groupStep_nonempty {α κ} [DecidableEq κ] (key : α → κ) (l : List α) (acc : List (κ × List α))
    (h : ∀ p ∈ acc, p.2 ≠ []) : ∀ p ∈ l.foldl (groupStep key) acc, p.2 ≠ [] := by
  induction l generalizing acc with
  | nil => exact h
  | cons x xs ih => exact ih _ (groupStep_nonempty key acc x h)

theorem groupBy_nonempty {α κ} [DecidableEq κ] (key : α → κ) (l : List α) : ∀ p ∈ groupBy key l, p.2 ≠ [] := by
  rw [groupBy_eq_foldl]
  exact foldl_groupStep_nonempty key l [] (by simp)

/-- `[matches[0] for _, matches in d.items()]` over non-empty groups: never raises, gives every group's first member -/
theorem mapM_first {α κ} (G : List (κ × List α)) (h : ∀ p ∈ G, p.2 ≠ []) :
    ∃ r, Py.listMapM? G (fun p => p.2[0]?) = some r ∧ r.map some = G.map (fun p => p.2.head?) := by
  induction G with
  | nil => exact ⟨[], rfl, rfl⟩
  | cons p ps ih =>
    rcases ih (fun q hq => h q (by simp [hq])) with ⟨r, hr, hr'⟩
    have hp := h p (by simp)
    cases hl : p.2 with
    | nil => exact absurd hl hp
    | cons y ys =>
      refine ⟨y :: r, ?_, ?_⟩
      · simp [Py.listMapM?, hl, hr]
      · simp [hl, hr']

/-! ### the axis hints: the model's two arg-max abstractions -/

/-- `np.unravel_index(np.argmax(p_ss, axis=None), p_ss.shape)`: the first arg-max of the squared-distance table, row-major -/
def farthestPair (pp : List Vec3) : Nat × Nat :=
  let n := pp.length
  let k := argmaxFirst (pp.flatMap (fun p => pp.map (fun r => distSq p r)))
  if n = 0 then (0, 0) else (k / n, k % n)

/-- `np.argmax(p_ss[a, :])`: the first point farthest from point `a` -/
def farthestFrom (pp : List Vec3) (a : Option Nat) : Nat :=
  argmaxFirst (pp.map (fun r => distSq (pp.getD (a.getD 0) Vec3.zero) r))

end Mofun.Code7Find
