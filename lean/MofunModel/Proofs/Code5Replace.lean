/-
  Code5Replace.lean — list lemmas behind the equivalence theorems of the fifth translator batch for
  `replace_pattern_in_structure`: python sets are lists in the generated code (`Py.setDiff`, `Py.setUnion`, `Py.setDisjoint`), the model
  keeps the duplicate-free representative (`dedup`); a dict comprehension over distinct keys is a `map`.
-/
import MofunModel.Generated.Code
import MofunModel.Proofs.ReplaceOverlap
import Mathlib.Data.List.Induction

namespace Mofun.Code5Replace
open Mofun Mofun.Generated Mofun.C07

/-! ### dedup -/

theorem filter_filter_comm {α} (p q : α → Bool) (l : List α) : (l.filter p).filter q = (l.filter q).filter p := by
  simp only [List.filter_filter, Bool.and_comm]

theorem filter_ne_of_not {α} [DecidableEq α] (p : α → Bool) (x : α) (hx : p x = false) (l : List α) :
    (l.filter (· ≠ x)).filter p = l.filter p := by
  rw [List.filter_filter]
  apply List.filter_congr
  intro a _
  by_cases h : a = x
  · subst h; simp [hx]
  · simp [h]

/-- `dedup` commutes with `filter` -/
theorem dedup_filter {α} [DecidableEq α] (p : α → Bool) (l : List α) : dedup (l.filter p) = (dedup l).filter p := by
  induction l with
  | nil => rfl
  | cons x xs ih =>
    by_cases hx : p x = true
    · simp only [List.filter_cons, hx, if_true, dedup, ih]
      congr 1
      exact filter_filter_comm _ _ _
    · have hx' : p x = false := by simpa using hx
      simp only [List.filter_cons, hx', dedup, ih, Bool.false_eq_true, if_false]
      exact (filter_ne_of_not p x hx' _).symm

/-- the duplicate-free representative of a union -/
theorem dedup_append {α} [DecidableEq α] (a b : List α) :
    dedup (a ++ b) = dedup a ++ (dedup b).filter (fun i => !a.contains i) := by
  induction a with
  | nil => simp only [dedup, List.nil_append]; exact (List.filter_eq_self.mpr (by simp)).symm
  | cons x xs ih =>
    simp only [List.cons_append, dedup, ih, List.filter_append, List.filter_filter]
    congr 2
    apply List.filter_congr
    intro i _
    by_cases h : i = x <;> simp [h]

/-! ### disjointness is symmetric -/
theorem setDisjoint_comm {α} [DecidableEq α] (a b : List α) : Py.setDisjoint a b = b.all (fun i => !a.contains i) := by
  unfold Py.setDisjoint
  rw [Bool.eq_iff_iff]
  simp only [List.all_eq_true, Bool.not_eq_true', List.contains_eq_mem, decide_eq_false_iff_not]
  exact ⟨fun h i hi ha => h i ha hi, fun h i hi hb => h i hb hi⟩

theorem all_dedup {α} [DecidableEq α] (p : α → Bool) (l : List α) : (dedup l).all p = l.all p := by
  rw [Bool.eq_iff_iff]
  simp only [List.all_eq_true, mem_dedup]

/-! ### a dict comprehension over distinct keys -/

theorem dictInsert_new {κ β} [DecidableEq κ] (acc : List (κ × β)) (k : κ) (v : β) (h : k ∉ acc.map (·.1)) :
    Py.dictInsert acc k v = acc ++ [(k, v)] := by
  induction acc with
  | nil => rfl
  | cons p ps ih =>
    obtain ⟨k', v'⟩ := p
    simp only [List.map_cons, List.mem_cons, not_or] at h
    have hne : ¬ k' = k := fun e => h.1 e.symm
    simp only [Py.dictInsert, hne, if_false, List.cons_append, ih h.2]

theorem dictCompM_snoc {κ β κ' β'} [DecidableEq κ'] (ps : List (κ × β)) (p : κ × β) (f : κ × β → Option (κ' × β')) :
    Py.dictCompM? (ps ++ [p]) f = (Py.dictCompM? ps f).bind (fun m => (f p).bind (fun kv => some (Py.dictInsert m kv.1 kv.2))) := by
  unfold Py.dictCompM?
  rw [List.foldl_append]
  simp only [List.foldl_cons, List.foldl_nil]
  cases List.foldl _ (some []) ps <;> cases f p <;> rfl

/-- `{key: val(…) for …}` whose keys are distinct and whose values all evaluate: the pairs in order -/
theorem dictCompM_map {κ β β'} [DecidableEq κ] (d : List (κ × β)) (g : κ × β → Option β') (val : κ × β → β')
    (hnd : (d.map (·.1)).Nodup) (hg : ∀ p ∈ d, g p = some (val p)) :
    Py.dictCompM? d (fun p => (g p).bind (fun v => some (p.1, v))) = some (d.map (fun p => (p.1, val p))) := by
  induction d using List.reverseRecOn with
  | nil => rfl
  | append_singleton ps p ih =>
    have hnd' : (ps.map (·.1)).Nodup ∧ p.1 ∉ ps.map (·.1) := by
      rw [List.map_append, List.nodup_append] at hnd
      exact ⟨hnd.1, fun hm => hnd.2.2 _ hm _ (by simp) rfl⟩
    rw [dictCompM_snoc, ih hnd'.1 (fun q hq => hg q (by simp [hq])), hg p (by simp)]
    simp only [Option.bind_some]
    rw [dictInsert_new _ _ _ (by simpa [List.map_map, Function.comp_def] using hnd'.2)]
    simp

end Mofun.Code5Replace
