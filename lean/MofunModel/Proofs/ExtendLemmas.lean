/- helper lemmas for C11 (extend): list facts, one term kind, the body of Atoms.extend in named pieces, atoms, index
   conversion, label merge, extension without identity map (also used by C12) -/
import MofunModel.Model.Topo
namespace Mofun

/-! ### `indexOf?` -/

theorem indexOf?_getElem? {α} [DecidableEq α] (l : List α) (x : α) (j : Nat)
    (h : indexOf? l x = some j) : l[j]? = some x := by
  induction l generalizing j with
  | nil => simp [indexOf?] at h
  | cons y ys ih =>
    unfold indexOf? at h
    by_cases hy : y = x
    · simp [hy] at h; subst h; simp [hy]
    · simp only [hy, if_false, Option.map_eq_some_iff] at h
      obtain ⟨j', hj', rfl⟩ := h
      simpa using ih j' hj'

theorem indexOf?_of_mem {α} [DecidableEq α] (l : List α) (x : α) (h : x ∈ l) :
    ∃ j, indexOf? l x = some j := by
  induction l with
  | nil => simp at h
  | cons y ys ih =>
    unfold indexOf?
    by_cases hy : y = x
    · exact ⟨0, by simp [hy]⟩
    · have hx : x ∈ ys := by
        rcases List.mem_cons.mp h with e | e
        · exact absurd e.symm hy
        · exact e
      obtain ⟨j, hj⟩ := ih hx
      exact ⟨j + 1, by simp [hy, hj]⟩

theorem indexOf?_none {α} [DecidableEq α] (l : List α) (x : α) (h : x ∉ l) : indexOf? l x = none := by
  induction l with
  | nil => rfl
  | cons y ys ih =>
    unfold indexOf?
    have hy : ¬ y = x := fun e => h (by simp [e])
    have hx : x ∉ ys := fun m => h (by simp [m])
    simp [hy, ih hx]

theorem indexOf?_lt {α} [DecidableEq α] (l : List α) (x : α) (j : Nat) (h : indexOf? l x = some j) :
    j < l.length := by
  have := indexOf?_getElem? l x j h
  exact (List.getElem?_eq_some_iff.mp this).1

/-- in a duplicate-free list the first occurrence is the occurrence -/
theorem indexOf?_nodup {α} [DecidableEq α] (l : List α) (hnd : l.Nodup) (x : α) (j : Nat)
    (h : l[j]? = some x) : indexOf? l x = some j := by
  induction l generalizing j with
  | nil => simp at h
  | cons y ys ih =>
    have hnd' := List.nodup_cons.mp hnd
    unfold indexOf?
    cases j with
    | zero => simp at h; simp [h]
    | succ j =>
      have hj : ys[j]? = some x := by simpa using h
      have hx : x ∈ ys := List.mem_of_getElem? hj
      have hy : ¬ y = x := fun e => hnd'.1 (e ▸ hx)
      simp [hy, ih hnd'.2 j hj]

theorem indexOf?_range' (s m k : Nat) (h1 : s ≤ k) (h2 : k < s + m) :
    indexOf? (List.range' s m) k = some (k - s) := by
  induction m generalizing s with
  | zero => omega
  | succ m ih =>
    rw [List.range'_succ]
    unfold indexOf?
    by_cases e : s = k
    · simp [e]
    · have := ih (s + 1) (by omega) (by omega)
      simp only [e, if_false, this, Option.map_some]
      congr 1; omega

theorem indexOf?_range (m k : Nat) (h : k < m) : indexOf? (List.range m) k = some k := by
  rw [List.range_eq_range']; simpa using indexOf?_range' 0 m k (by omega) (by omega)

/-! ### `deleteIdx` is a filter on positions -/

theorem deleteIdx_go_filter {α} (idx : List Nat) (l : List α) (off : Nat) :
    deleteIdx.go idx l off = ((l.zipIdx off).filter (fun p => !idx.contains p.2)).map (·.1) := by
  induction l generalizing off with
  | nil => simp [deleteIdx.go]
  | cons y ys ih =>
    by_cases h : off ∈ idx <;> simp [deleteIdx.go, List.zipIdx_cons, h, ih]

theorem deleteIdx_eq_filter {α} (idx : List Nat) (l : List α) :
    deleteIdx l idx = ((l.zipIdx).filter (fun p => !idx.contains p.2)).map (·.1) := by
  simp [deleteIdx, deleteIdx_go_filter]

/-- erasing positions that all lie in the first part `l₁`, decided there by a predicate on the element -/
theorem deleteIdx_append_pred {α} (l₁ l₂ : List α) (idx : List Nat) (q : α → Bool)
    (h1 : ∀ i, (hi : i < l₁.length) → (idx.contains i = q l₁[i]))
    (h2 : ∀ i ∈ idx, i < l₁.length) :
    deleteIdx (l₁ ++ l₂) idx = l₁.filter (fun x => !q x) ++ l₂ := by
  rw [deleteIdx_eq_filter, List.zipIdx_append, List.filter_append, List.map_append]
  congr 1
  · have : l₁.filter (fun x => !q x) = ((l₁.zipIdx).map Prod.fst).filter (fun x => !q x) := by
      rw [List.zipIdx_map_fst]
    rw [this, List.filter_map]
    congr 1
    apply List.filter_congr
    intro p hp
    obtain ⟨x, i⟩ := p
    have hm := List.mem_zipIdx hp
    have hi : i < l₁.length := by omega
    have hx : x = l₁[i] := by simpa using hm.2.2
    simp only [Function.comp, h1 i hi, hx]
  · have : (l₂.zipIdx (0 + l₁.length)).filter (fun p => !idx.contains p.2) = l₂.zipIdx (0 + l₁.length) := by
      apply List.filter_eq_self.mpr
      intro p hp
      obtain ⟨x, i⟩ := p
      have hm := List.mem_zipIdx hp
      have : i ∉ idx := fun hmem => by have := h2 i hmem; omega
      simpa using this
    rw [this, List.zipIdx_map_fst]


/-- an existing term is superseded when a new term lists exactly the same atoms, forwards or backwards -/
def superseded (newTuples : List (List Nat)) (t : Term) : Bool :=
  newTuples.any (fun u => decide (t.atoms = u)) || newTuples.any (fun u => decide (t.atoms = u.reverse))

/-- a term of the other structure, re-targeted: atoms through `conv`, type shifted, extra columns re-laid out -/
def convTerm (labels otherLabels : List String) (off : Nat) (conv : Nat → Option Nat) (t : Term) : Term :=
  { atoms := t.atoms.map (fun a => (conv a).getD 0), ty := t.ty + off,
    extra := matchRow labels otherLabels t.extra }

/-- an existing term, widened to the merged label list -/
def padTerm (w : Nat) (t : Term) : Term := { t with extra := padRow t.extra w }

theorem mem_existingIdx (old : List Term) (new : List (List Nat)) (i : Nat) :
    i ∈ existingIdx old new ↔ ∃ h : i < old.length, superseded new old[i] = true := by
  unfold existingIdx
  rw [List.mem_filter, List.mem_range]
  constructor
  · rintro ⟨hi, h⟩
    refine ⟨hi, ?_⟩
    rw [List.getElem?_eq_getElem hi] at h
    simpa [superseded] using h
  · rintro ⟨hi, h⟩
    refine ⟨hi, ?_⟩
    rw [List.getElem?_eq_getElem hi]
    simpa [superseded] using h

/-- **one term kind of `extend`**: kept old terms (widened) followed by all re-targeted new terms -/
theorem extendWith_spec (mine other res : TermTable) (off : Nat) (conv : Nat → Option Nat)
    (h : mine.extendWith other off conv = .ok res) :
    res.terms =
        (mine.terms.filter (fun t => !superseded
            ((other.terms.map (convTerm (mergeLabels mine.xlabels other.xlabels) other.xlabels off conv)).map (·.atoms)) t)).map
          (padTerm (mergeLabels mine.xlabels other.xlabels).length)
        ++ other.terms.map (convTerm (mergeLabels mine.xlabels other.xlabels) other.xlabels off conv)
    ∧ res.xlabels = mergeLabels mine.xlabels other.xlabels
    ∧ res.coeffs = mine.coeffs
    ∧ (∀ t ∈ other.terms, ∀ x ∈ t.atoms, (conv x).isSome = true) := by
  unfold TermTable.extendWith at h
  by_cases he : other.terms.isEmpty = true
  · have hnil : other.terms = [] := List.isEmpty_iff.mp he
    simp only [he, if_true] at h
    cases h
    refine ⟨?_, rfl, rfl, ?_⟩
    · have hf : mine.terms.filter (fun _ => true) = mine.terms := List.filter_eq_self.mpr (fun _ _ => rfl)
      simp only [hnil, superseded, List.map_nil, List.any_nil, Bool.or_self, Bool.not_false, List.append_nil, hf]; rfl
    · simp [hnil]
  · have he' : other.terms.isEmpty = false := by simpa using he
    simp only [he', Bool.false_eq_true, if_false] at h
    by_cases hany : (other.terms.any (fun t => t.atoms.any (fun a => (conv a).isNone))) = true
    · simp only [hany, if_true] at h
      cases h
    · have hany' : (other.terms.any (fun t => t.atoms.any (fun a => (conv a).isNone))) = false := by simpa using hany
      simp only [hany', Bool.false_eq_true, if_false] at h
      cases h
      refine ⟨?_, rfl, rfl, ?_⟩
      · show deleteIdx _ _ = _
        rw [deleteIdx_append_pred _ _ _ (fun t => superseded
            ((other.terms.map (convTerm (mergeLabels mine.xlabels other.xlabels) other.xlabels off conv)).map (·.atoms)) t)]
        · congr 1
          rw [List.filter_map]
          rfl
        · intro i hi
          have hi' : i < mine.terms.length := by simpa using hi
          rw [Bool.eq_iff_iff, List.contains_iff_mem, mem_existingIdx]
          simp only [List.getElem_map]
          constructor
          · rintro ⟨_, hs⟩; exact hs
          · intro hs; exact ⟨hi', hs⟩
        · intro i hi
          obtain ⟨hlt, _⟩ := (mem_existingIdx _ _ _).mp hi
          simpa using hlt
      · intro t ht x hx
        rw [List.any_eq_true] at hany
        cases hc : conv x with
        | some v => rfl
        | none =>
          exact absurd ⟨t, ht, List.any_eq_true.mpr ⟨x, hx, by simp [hc]⟩⟩ hany

/-! ### the body of `Atoms.extend`, in named pieces -/

/-- the structure whose tables are extended and the offsets in force (`offsets is None` → `extend_types`) -/
def extBase (a b : Atoms) : Option Offsets → Atoms × Offsets
  | some o => (a, o)
  | none => a.extendTypes b

def extLabels (a1 b : Atoms) : List String := mergeLabels a1.xlabels b.xlabels

/-- the other structure's per-atom extra rows under the merged labels -/
def extBx (a1 b : Atoms) : List (List String) :=
  b.atoms.map (fun r => matchRow (extLabels a1 b) b.xlabels r.extra)

def extPadded (a1 b : Atoms) : List AtomRow :=
  a1.atoms.map (fun r => { r with extra := padRow r.extra (extLabels a1 b).length })

/-- `self.extra_atom_fields.size > 0` -/
def extAnyFields (a1 b : Atoms) : Bool := a1.atoms.length * (extLabels a1 b).length > 0

/-- what a mapped atom of self becomes when it adopts atom `k` of the other structure -/
def adoptRow (a1 b : Atoms) (offs : Offsets) (k : Nat) (r : AtomRow) : AtomRow :=
  { r with ty := ((b.atoms[k]?).map (·.ty)).getD 0 + offs.atom,
           extra := if extAnyFields a1 b then (extBx a1 b).getD k [] else r.extra }

def extStep (a1 b : Atoms) (offs : Offsets) (rows : List AtomRow) (kv : Nat × Nat) : List AtomRow :=
  match b.atoms[kv.1]?, rows[kv.2]? with
  | some br, some r =>
      rows.set kv.2 { r with ty := br.ty + offs.atom,
                             extra := if extAnyFields a1 b then (extBx a1 b).getD kv.1 [] else r.extra }
  | _, _ => rows

def extToAdd (b : Atoms) (map : List (Nat × Nat)) : List Nat :=
  (List.range b.atoms.length).filter (fun i => !(map.map (·.1)).contains i)

def extAdded (a1 b : Atoms) (offs : Offsets) (map : List (Nat × Nat)) : List AtomRow :=
  (extToAdd b map).filterMap (fun i => match b.atoms[i]? with
    | some br => some { br with ty := br.ty + offs.atom, extra := (extBx a1 b).getD i [] }
    | none => none)

/-- `structure_index_map2.get` -/
def extConv (a1 b : Atoms) (map : List (Nat × Nat)) : Nat → Option Nat := fun k =>
  match lookupLast map k with
  | some v => some v
  | none => (indexOf? (extToAdd b map) k).map (· + a1.atoms.length)

def extendCore (a1 : Atoms) (offs : Offsets) (b : Atoms) (map : List (Nat × Nat)) : Except Err Atoms :=
  if !(map.map (·.1)).Nodup' then .error .domain
  else if map.any (fun kv => kv.1 ≥ b.atoms.length || kv.2 ≥ a1.atoms.length) then .error .index
  else do
    let bonds ← a1.bonds.extendWith b.bonds offs.bond (extConv a1 b map)
    let angles ← a1.angles.extendWith b.angles offs.angle (extConv a1 b map)
    let dihedrals ← a1.dihedrals.extendWith b.dihedrals offs.dihedral (extConv a1 b map)
    let impropers ← a1.impropers.extendWith b.impropers offs.improper (extConv a1 b map)
    pure { a1 with
      atoms := map.foldl (extStep a1 b offs) (extPadded a1 b) ++ extAdded a1 b offs map
      xlabels := extLabels a1 b
      bonds := bonds, angles := angles, dihedrals := dihedrals, impropers := impropers }

theorem extend_eq_core (a b : Atoms) (off : Option Offsets) (map : List (Nat × Nat)) :
    a.extend b off map = extendCore (extBase a b off).1 (extBase a b off).2 b map := by
  cases off <;> rfl

/-- everything a successful `extend` tells us, piece by piece -/
theorem extendCore_ok (a1 b r : Atoms) (offs : Offsets) (map : List (Nat × Nat))
    (h : extendCore a1 offs b map = .ok r) :
    (map.map (·.1)).Nodup' = true
    ∧ (∀ kv ∈ map, kv.1 < b.atoms.length ∧ kv.2 < a1.atoms.length)
    ∧ a1.bonds.extendWith b.bonds offs.bond (extConv a1 b map) = .ok r.bonds
    ∧ a1.angles.extendWith b.angles offs.angle (extConv a1 b map) = .ok r.angles
    ∧ a1.dihedrals.extendWith b.dihedrals offs.dihedral (extConv a1 b map) = .ok r.dihedrals
    ∧ a1.impropers.extendWith b.impropers offs.improper (extConv a1 b map) = .ok r.impropers
    ∧ r.atoms = map.foldl (extStep a1 b offs) (extPadded a1 b) ++ extAdded a1 b offs map
    ∧ r.xlabels = extLabels a1 b
    ∧ r.typeElems = a1.typeElems ∧ r.typeLabels = a1.typeLabels ∧ r.typeMasses = a1.typeMasses
    ∧ r.pairCoeffs = a1.pairCoeffs ∧ r.cell = a1.cell := by
  unfold extendCore at h
  by_cases h1 : (map.map (·.1)).Nodup' = true
  · by_cases h2 : map.any (fun kv => decide (kv.1 ≥ b.atoms.length) || decide (kv.2 ≥ a1.atoms.length)) = true
    · simp [h1, h2] at h
    · have h2' : map.any (fun kv => decide (kv.1 ≥ b.atoms.length) || decide (kv.2 ≥ a1.atoms.length)) = false := by
        simpa using h2
      simp only [h1, h2', Bool.not_true, Bool.false_eq_true, if_false] at h
      cases hb : a1.bonds.extendWith b.bonds offs.bond (extConv a1 b map) with
      | error e => simp [hb, bind, Except.bind] at h
      | ok bonds =>
        cases ha : a1.angles.extendWith b.angles offs.angle (extConv a1 b map) with
        | error e => simp [hb, ha, bind, Except.bind] at h
        | ok angles =>
          cases hd : a1.dihedrals.extendWith b.dihedrals offs.dihedral (extConv a1 b map) with
          | error e => simp [hb, ha, hd, bind, Except.bind] at h
          | ok dihedrals =>
            cases hi : a1.impropers.extendWith b.impropers offs.improper (extConv a1 b map) with
            | error e => simp [hb, ha, hd, hi, bind, Except.bind] at h
            | ok impropers =>
              simp only [hb, ha, hd, hi, bind, Except.bind, pure, Except.pure] at h
              cases h
              refine ⟨h1, ?_, rfl, rfl, rfl, rfl, rfl, rfl, rfl, rfl, rfl, rfl, rfl⟩
              intro kv hkv
              have := List.any_eq_false.mp h2' kv hkv
              simp at this
              omega
  · simp [h1] at h

/-! ### atoms of the result -/

theorem nodup'_iff {α} [DecidableEq α] (l : List α) : l.Nodup' = true ↔ l.Nodup := by
  induction l with
  | nil => simp [List.Nodup']
  | cons x xs ih => simp [List.Nodup', ih]

/-- key of the other structure whose binding is the last one to write row `i` of self -/
def srcOf : List (Nat × Nat) → Nat → Option Nat
  | [], _ => none
  | kv :: m, i => match srcOf m i with
    | some k => some k
    | none => if kv.2 = i then some kv.1 else none

theorem srcOf_none (m : List (Nat × Nat)) (i : Nat) (h : ∀ kv ∈ m, kv.2 ≠ i) : srcOf m i = none := by
  induction m with
  | nil => rfl
  | cons kv m ih =>
    have h1 : kv.2 ≠ i := h kv (by simp)
    have h2 := ih (fun kv' hkv' => h kv' (by simp [hkv']))
    simp [srcOf, h2, h1]

theorem srcOf_some_mem (m : List (Nat × Nat)) (i k : Nat) (h : srcOf m i = some k) : (k, i) ∈ m := by
  induction m with
  | nil => simp [srcOf] at h
  | cons kv m ih =>
    unfold srcOf at h
    cases hs : srcOf m i with
    | some k' =>
      rw [hs] at h
      have : k' = k := by simpa using h
      subst this
      exact List.mem_cons_of_mem _ (ih hs)
    | none =>
      rw [hs] at h
      by_cases e : kv.2 = i
      · simp [e] at h
        have : kv = (k, i) := by cases kv; simp_all
        simp [this]
      · simp [e] at h

/-- for an injective map the (only) binding with value `v` is the source of row `v` -/
theorem srcOf_of_mem (m : List (Nat × Nat)) (hinj : (m.map (·.2)).Nodup) (k v : Nat) (h : (k, v) ∈ m) :
    srcOf m v = some k := by
  induction m with
  | nil => simp at h
  | cons kv m ih =>
    have hinj' : (kv.2 :: m.map (·.2)).Nodup := hinj
    have hnd := List.nodup_cons.mp hinj'
    unfold srcOf
    rcases List.mem_cons.mp h with e | e
    · have hn : srcOf m v = none := by
        apply srcOf_none
        intro kv' hkv' e'
        apply hnd.1
        rw [← e]
        simp only
        rw [← e']
        exact List.mem_map.mpr ⟨kv', hkv', rfl⟩
      simp [hn, ← e]
    · rw [ih hnd.2 e]

theorem adoptRow_adoptRow (a1 b : Atoms) (offs : Offsets) (k k' : Nat) (r : AtomRow) :
    adoptRow a1 b offs k (adoptRow a1 b offs k' r) = adoptRow a1 b offs k r := by
  unfold adoptRow
  cases extAnyFields a1 b <;> simp

/-- row `i` after all the in-place updates of mapped atoms -/
def selfRow (a1 b : Atoms) (offs : Offsets) (map : List (Nat × Nat)) (i : Nat) (r : AtomRow) : AtomRow :=
  match srcOf map i with
  | some k => adoptRow a1 b offs k r
  | none => r

theorem foldl_extStep_getElem? (a1 b : Atoms) (offs : Offsets) (map : List (Nat × Nat))
    (hk : ∀ kv ∈ map, kv.1 < b.atoms.length) (rows : List AtomRow) (i : Nat) :
    (map.foldl (extStep a1 b offs) rows)[i]? = (rows[i]?).map (selfRow a1 b offs map i) := by
  induction map generalizing rows with
  | nil =>
    have : selfRow a1 b offs [] i = id := by funext r; simp [selfRow, srcOf]
    simp [this]
  | cons kv m ih =>
    have hk' : ∀ kv' ∈ m, kv'.1 < b.atoms.length := fun kv' h => hk kv' (by simp [h])
    have hkv : kv.1 < b.atoms.length := hk kv (by simp)
    rw [List.foldl_cons, ih hk']
    have hb : b.atoms[kv.1]? = some b.atoms[kv.1] := List.getElem?_eq_getElem hkv
    cases hr : rows[kv.2]? with
    | none =>
      have hstep : extStep a1 b offs rows kv = rows := by simp [extStep, hb, hr]
      rw [hstep]
      by_cases e : kv.2 = i
      · rw [← e, hr]; rfl
      · cases hri : rows[i]? with
        | none => rfl
        | some ri =>
          simp only [Option.map_some, selfRow, srcOf]
          cases srcOf m i <;> simp [e]
    | some r0 =>
      have hlt : kv.2 < rows.length := (List.getElem?_eq_some_iff.mp hr).1
      have hstep : extStep a1 b offs rows kv = rows.set kv.2 (adoptRow a1 b offs kv.1 r0) := by
        simp [extStep, hb, hr, adoptRow]
      rw [hstep, List.getElem?_set]
      by_cases e : kv.2 = i
      · subst e
        simp only [if_true, hlt, hr, Option.map_some, selfRow, srcOf]
        cases srcOf m kv.2 with
        | some k => simp [adoptRow_adoptRow]
        | none => simp
      · simp only [e, if_false]
        cases hri : rows[i]? with
        | none => rfl
        | some ri =>
          simp only [Option.map_some, selfRow, srcOf]
          cases srcOf m i <;> simp [e]

theorem filterMap_congr_of_mem {α β} (l : List α) (f g : α → Option β) (h : ∀ x ∈ l, f x = g x) :
    l.filterMap f = l.filterMap g := by
  induction l with
  | nil => rfl
  | cons x xs ih =>
    have hx := h x (by simp)
    have := ih (fun y hy => h y (by simp [hy]))
    simp [List.filterMap_cons, hx, this]

theorem range'_filter_filterMap {α β} (l : List α) (p : Nat → Bool) (g : α → β) (s : Nat) :
    ((List.range' s l.length).filter p).filterMap (fun i => (l[i - s]?).map g)
      = ((l.zipIdx s).filter (fun q => p q.2)).map (fun q => g q.1) := by
  induction l generalizing s with
  | nil => simp
  | cons x xs ih =>
    have hrest : ((List.range' (s + 1) xs.length).filter p).filterMap (fun i => ((x :: xs)[i - s]?).map g)
        = ((List.range' (s + 1) xs.length).filter p).filterMap (fun i => (xs[i - (s + 1)]?).map g) := by
      apply filterMap_congr_of_mem
      intro i hi
      have hi' := (List.mem_range'_1.mp (List.mem_filter.mp hi).1).1
      have : i - s = (i - (s + 1)) + 1 := by omega
      rw [this, List.getElem?_cons_succ]
    simp only [List.length_cons, List.range'_succ, List.zipIdx_cons]
    by_cases hp : p s = true
    · rw [List.filter_cons_of_pos hp, List.filter_cons_of_pos (by simpa using hp), List.filterMap_cons]
      simp only [Nat.sub_self, List.getElem?_cons_zero, Option.map_some, List.map_cons, hrest, ih (s + 1)]
    · rw [List.filter_cons_of_neg hp, List.filter_cons_of_neg (by simpa using hp), hrest, ih (s + 1)]

theorem range_filter_filterMap {α β} (l : List α) (p : Nat → Bool) (g : α → β) :
    ((List.range l.length).filter p).filterMap (fun i => (l[i]?).map g)
      = ((l.zipIdx).filter (fun q => p q.2)).map (fun q => g q.1) := by
  have := range'_filter_filterMap l p g 0
  simpa [List.range_eq_range'] using this

/-- an unmapped atom of the other structure as it is appended -/
def appendRow (a1 b : Atoms) (offs : Offsets) (br : AtomRow) : AtomRow :=
  { br with ty := br.ty + offs.atom, extra := matchRow (extLabels a1 b) b.xlabels br.extra }

theorem extAdded_eq (a1 b : Atoms) (offs : Offsets) (map : List (Nat × Nat)) :
    extAdded a1 b offs map
      = ((b.atoms.zipIdx).filter (fun q => !(map.map (·.1)).contains q.2)).map (fun q => appendRow a1 b offs q.1) := by
  unfold extAdded extToAdd
  rw [← range_filter_filterMap b.atoms (fun i => !(map.map (·.1)).contains i) (appendRow a1 b offs)]
  congr 1
  funext i
  cases hb : b.atoms[i]? with
  | none => rfl
  | some br => simp [appendRow, extBx, List.getD_eq_getElem?_getD, hb]

theorem extUpdated_eq (a1 b : Atoms) (offs : Offsets) (map : List (Nat × Nat))
    (hk : ∀ kv ∈ map, kv.1 < b.atoms.length) :
    map.foldl (extStep a1 b offs) (extPadded a1 b)
      = (a1.atoms.zipIdx).map (fun q => selfRow a1 b offs map q.2
          { q.1 with extra := padRow q.1.extra (extLabels a1 b).length }) := by
  apply List.ext_getElem?
  intro i
  rw [foldl_extStep_getElem? a1 b offs map hk]
  simp only [extPadded, List.getElem?_map, List.getElem?_zipIdx, Option.map_map]
  cases a1.atoms[i]? <;> simp

/-! ### the index conversion `structure_index_map2` -/

theorem lookupLast_foldl (m : List (Nat × Nat)) (k : Nat) (acc : Option Nat) :
    m.foldl (fun acc kv => if kv.1 = k then some kv.2 else acc) acc
      = match lookupLast m k with
        | some v => some v
        | none => acc := by
  induction m generalizing acc with
  | nil => rfl
  | cons kv m ih =>
    have e1 : lookupLast (kv :: m) k
        = m.foldl (fun acc kv => if kv.1 = k then some kv.2 else acc) (if kv.1 = k then some kv.2 else none) := rfl
    rw [List.foldl_cons, ih, e1, ih]
    cases lookupLast m k with
    | some v => rfl
    | none => by_cases e : kv.1 = k <;> simp [e]

theorem lookupLast_cons (kv : Nat × Nat) (m : List (Nat × Nat)) (k : Nat) :
    lookupLast (kv :: m) k = match lookupLast m k with
      | some v => some v
      | none => if kv.1 = k then some kv.2 else none := by
  have e1 : lookupLast (kv :: m) k
      = m.foldl (fun acc kv => if kv.1 = k then some kv.2 else acc) (if kv.1 = k then some kv.2 else none) := rfl
  rw [e1, lookupLast_foldl]

/-- the dict lookup is `srcOf` on the swapped pairs -/
theorem lookupLast_eq_srcOf (m : List (Nat × Nat)) (k : Nat) :
    lookupLast m k = srcOf (m.map Prod.swap) k := by
  induction m with
  | nil => rfl
  | cons kv m ih => rw [lookupLast_cons, ih]; rfl

theorem lookupLast_none (m : List (Nat × Nat)) (k : Nat) (h : k ∉ m.map (·.1)) : lookupLast m k = none := by
  rw [lookupLast_eq_srcOf]
  apply srcOf_none
  intro kv hkv e
  obtain ⟨p, hp, rfl⟩ := List.mem_map.mp hkv
  exact h (List.mem_map.mpr ⟨p, hp, by simpa using e⟩)

theorem lookupLast_some_mem (m : List (Nat × Nat)) (k v : Nat) (h : lookupLast m k = some v) : (k, v) ∈ m := by
  rw [lookupLast_eq_srcOf] at h
  have := srcOf_some_mem _ _ _ h
  obtain ⟨p, hp, e⟩ := List.mem_map.mp this
  have : p = (k, v) := by cases p; simp [Prod.swap] at e; simp [e]
  exact this ▸ hp

/-- with distinct keys (a python dict) the lookup returns the bound value -/
theorem lookupLast_of_mem (m : List (Nat × Nat)) (hnd : (m.map (·.1)).Nodup) (k v : Nat) (h : (k, v) ∈ m) :
    lookupLast m k = some v := by
  rw [lookupLast_eq_srcOf]
  apply srcOf_of_mem
  · rw [List.map_map]; exact hnd
  · exact List.mem_map.mpr ⟨(k, v), h, rfl⟩

theorem mem_extToAdd (b : Atoms) (map : List (Nat × Nat)) (k : Nat) :
    k ∈ extToAdd b map ↔ k < b.atoms.length ∧ k ∉ map.map (·.1) := by
  simp [extToAdd]

theorem extConv_mapped (a1 b : Atoms) (map : List (Nat × Nat)) (hnd : (map.map (·.1)).Nodup) (k v : Nat)
    (h : (k, v) ∈ map) : extConv a1 b map k = some v := by
  simp [extConv, lookupLast_of_mem map hnd k v h]

/-- an unmapped atom `k` of the other structure goes to `n + j`, `j` its position among the appended atoms -/
theorem extConv_unmapped (a1 b : Atoms) (map : List (Nat × Nat)) (k : Nat) (hk : k < b.atoms.length)
    (hun : k ∉ map.map (·.1)) :
    ∃ j, extConv a1 b map k = some (j + a1.atoms.length) ∧ (extToAdd b map)[j]? = some k := by
  obtain ⟨j, hj⟩ := indexOf?_of_mem (extToAdd b map) k ((mem_extToAdd b map k).mpr ⟨hk, hun⟩)
  exact ⟨j, by simp [extConv, lookupLast_none map k hun, hj], indexOf?_getElem? _ _ _ hj⟩

theorem extConv_isSome (a1 b : Atoms) (map : List (Nat × Nat)) (k : Nat) (hk : k < b.atoms.length) :
    (extConv a1 b map k).isSome = true := by
  by_cases hm : k ∈ map.map (·.1)
  · obtain ⟨p, hp, e⟩ := List.mem_map.mp hm
    unfold extConv
    cases hl : lookupLast map k with
    | some v => rfl
    | none =>
      rw [lookupLast_eq_srcOf] at hl
      exfalso
      have hne : ∀ (l : List (Nat × Nat)) (q : Nat × Nat), q ∈ l → srcOf l q.2 ≠ none := by
        intro l q hq
        induction l with
        | nil => simp at hq
        | cons y ys ih =>
          unfold srcOf
          rcases List.mem_cons.mp hq with e' | e'
          · cases srcOf ys q.2 <;> simp [e']
          · have := ih e'
            cases hs : srcOf ys q.2 with
            | none => exact absurd hs this
            | some _ => simp
      have := hne (map.map Prod.swap) p.swap (List.mem_map.mpr ⟨p, hp, rfl⟩)
      apply this
      simpa [e] using hl
  · obtain ⟨j, hj, _⟩ := extConv_unmapped a1 b map k hk hm
    simp [hj]

/-- position of `k` in a filtered range = number of kept indices below `k` -/
theorem indexOf?_filter_range' (p : Nat → Bool) (s m k : Nat) (h1 : s ≤ k) (h2 : k < s + m) (hp : p k = true) :
    indexOf? ((List.range' s m).filter p) k = some ((List.range' s (k - s)).filter p).length := by
  induction m generalizing s with
  | zero => omega
  | succ m ih =>
    rw [List.range'_succ]
    by_cases e : s = k
    · subst e
      rw [List.filter_cons_of_pos hp]
      simp [indexOf?]
    · have hk : k - s = (k - (s + 1)) + 1 := by omega
      have ih' := ih (s + 1) (by omega) (by omega)
      rw [hk, List.range'_succ]
      by_cases hs : p s = true
      · rw [List.filter_cons_of_pos hs, List.filter_cons_of_pos hs]
        unfold indexOf?
        simp [e, ih']
      · rw [List.filter_cons_of_neg hs, List.filter_cons_of_neg hs]
        exact ih'

/-- explicit form: an unmapped atom `k` lands at `n +` (number of unmapped atoms of the other structure before `k`) -/
theorem extConv_unmapped_rank (a1 b : Atoms) (map : List (Nat × Nat)) (k : Nat) (hk : k < b.atoms.length)
    (hun : k ∉ map.map (·.1)) :
    extConv a1 b map k
      = some (((List.range k).filter (fun i => !(map.map (·.1)).contains i)).length + a1.atoms.length) := by
  have h := indexOf?_filter_range' (fun i => !(map.map (·.1)).contains i) 0 b.atoms.length k (by omega) (by omega)
    (by simpa using hun)
  simp only [Nat.sub_zero, ← List.range_eq_range'] at h
  simp only [extConv, lookupLast_none map k hun, extToAdd, h, Option.map_some]

theorem extAdded_getElem? (a1 b : Atoms) (offs : Offsets) (map : List (Nat × Nat)) (j k : Nat)
    (h : (extToAdd b map)[j]? = some k) :
    (extAdded a1 b offs map)[j]? = (b.atoms[k]?).map (appendRow a1 b offs) := by
  have hmap : extAdded a1 b offs map
      = (extToAdd b map).map (fun i => appendRow a1 b offs ((b.atoms[i]?).getD default)) := by
    unfold extAdded
    rw [← List.filterMap_eq_map]
    apply filterMap_congr_of_mem
    intro i hi
    have hlt := ((mem_extToAdd b map i).mp hi).1
    simp [List.getElem?_eq_getElem hlt, appendRow, extBx, List.getD_eq_getElem?_getD]
  have hk : k < b.atoms.length := ((mem_extToAdd b map k).mp (List.mem_of_getElem? h)).1
  rw [hmap, List.getElem?_map, h]
  simp [List.getElem?_eq_getElem hk]

theorem length_foldl_extStep (a1 b : Atoms) (offs : Offsets) (map : List (Nat × Nat)) (rows : List AtomRow) :
    (map.foldl (extStep a1 b offs) rows).length = rows.length := by
  induction map generalizing rows with
  | nil => rfl
  | cons kv m ih =>
    rw [List.foldl_cons, ih]
    unfold extStep
    split <;> simp

/-! ### label merge, padding, re-layout (`_extend_extra_fields`) -/

theorem mem_dedup_iff {α} [DecidableEq α] (l : List α) (x : α) : x ∈ dedup l ↔ x ∈ l := by
  induction l with
  | nil => simp [dedup]
  | cons y ys ih =>
    unfold dedup
    by_cases e : x = y
    · simp [e]
    · simp [List.mem_filter, ih, e]

theorem mem_of_mem_dedup {α} [DecidableEq α] (l : List α) (x : α) (h : x ∈ dedup l) : x ∈ l :=
  (mem_dedup_iff l x).mp h

theorem dedup_sublist {α} [DecidableEq α] (l : List α) : (dedup l).Sublist l := by
  induction l with
  | nil => exact List.Sublist.slnil
  | cons y ys ih =>
    unfold dedup
    exact List.Sublist.cons_cons y ((List.filter_sublist).trans ih)

theorem dedup_nodup {α} [DecidableEq α] (l : List α) : (dedup l).Nodup := by
  induction l with
  | nil => simp [dedup]
  | cons y ys ih =>
    unfold dedup
    refine List.nodup_cons.mpr ⟨?_, ih.sublist List.filter_sublist⟩
    simp [List.mem_filter]

theorem mem_mergeLabels (mine theirs : List String) (l : String) :
    l ∈ mergeLabels mine theirs ↔ l ∈ mine ∨ l ∈ theirs := by
  unfold mergeLabels
  simp only [List.mem_append, List.mem_filter, mem_dedup_iff]
  constructor
  · rintro (h | ⟨h, _⟩)
    · exact Or.inl h
    · exact Or.inr h
  · intro h
    by_cases hm : l ∈ mine
    · exact Or.inl hm
    · rcases h with h | h
      · exact absurd h hm
      · exact Or.inr ⟨h, by simpa using hm⟩

theorem mergeLabels_nodup (mine theirs : List String) (h : mine.Nodup) : (mergeLabels mine theirs).Nodup := by
  unfold mergeLabels
  refine List.nodup_append.mpr ⟨h, (dedup_nodup theirs).sublist List.filter_sublist, ?_⟩
  intro a ha b hb e
  subst e
  have := (List.mem_filter.mp hb).2
  simp [ha] at this

theorem mergeLabels_take (mine theirs : List String) : (mergeLabels mine theirs).take mine.length = mine := by
  unfold mergeLabels; simp

theorem mergeLabels_drop_sublist (mine theirs : List String) :
    ((mergeLabels mine theirs).drop mine.length).Sublist theirs := by
  unfold mergeLabels
  simp only [List.drop_left]
  exact (List.filter_sublist).trans (dedup_sublist theirs)

theorem padRow_length (row : List String) (w : Nat) : (padRow row w).length = max row.length w := by
  simp [padRow]; omega

theorem padRow_getElem? (row : List String) (w i : Nat) (hw : row.length ≤ w) (hi : i < w) :
    (padRow row w)[i]? = some (row.getD i ".") := by
  unfold padRow
  by_cases h : i < row.length
  · rw [List.getElem?_append_left h]
    simp [List.getD_eq_getElem?_getD, List.getElem?_eq_getElem h]
  · rw [List.getElem?_append_right (by omega)]
    have : i - row.length < w - row.length := by omega
    simp [List.getD_eq_getElem?_getD, List.getElem?_eq_none (Nat.le_of_not_lt h), this]

theorem matchRow_length (labels otherLabels row : List String) :
    (matchRow labels otherLabels row).length = labels.length := by
  simp [matchRow]

/-- placement by label: column `i` of the re-laid-out row carries the value the other row has under the same label
    (at the label's position `j` in the other label list), and "." when the other structure has no such label -/
theorem matchRow_placed (labels otherLabels row : List String) (hnd : otherLabels.Nodup) (i : Nat) (l : String)
    (hl : labels[i]? = some l) :
    (∀ j, otherLabels[j]? = some l → (matchRow labels otherLabels row)[i]? = some (row.getD j "."))
    ∧ (l ∉ otherLabels → (matchRow labels otherLabels row)[i]? = some ".") := by
  unfold matchRow
  rw [List.getElem?_map, hl, Option.map_some]
  constructor
  · intro j hj
    rw [indexOf?_nodup otherLabels hnd l j hj]
  · intro hno
    rw [indexOf?_none otherLabels l hno]

/-! ### extending by a structure with the same label lists and no identity map -/

theorem mergeLabels_self (l : List String) : mergeLabels l l = l := by
  unfold mergeLabels
  have : (dedup l).filter (fun x => !l.contains x) = [] := by
    apply List.filter_eq_nil_iff.mpr
    intro x hx
    simp [mem_of_mem_dedup l x hx]
  rw [this, List.append_nil]

theorem padRow_of_length (row : List String) (w : Nat) (h : row.length = w) : padRow row w = row := by
  simp [padRow, h]

theorem matchRow_self (l : List String) (hnd : l.Nodup) (row : List String) (h : row.length = l.length) :
    matchRow l l row = row := by
  apply List.ext_getElem?
  intro i
  unfold matchRow
  rw [List.getElem?_map]
  by_cases hi : i < l.length
  · rw [List.getElem?_eq_getElem hi, Option.map_some,
      indexOf?_nodup l hnd l[i] i (List.getElem?_eq_getElem hi)]
    have hi' : i < row.length := by omega
    simp [List.getD_eq_getElem?_getD, List.getElem?_eq_getElem hi']
  · rw [List.getElem?_eq_none (by omega), List.getElem?_eq_none (by omega)]; rfl

/-- `extendWith` succeeds as soon as the conversion is defined on every atom used -/
theorem extendWith_total (mine other : TermTable) (off : Nat) (conv : Nat → Option Nat)
    (h : ∀ t ∈ other.terms, ∀ x ∈ t.atoms, (conv x).isSome = true) :
    ∃ res, mine.extendWith other off conv = .ok res := by
  unfold TermTable.extendWith
  by_cases he : other.terms.isEmpty = true
  · simp only [he, if_true]; exact ⟨_, rfl⟩
  · have he' : other.terms.isEmpty = false := by simpa using he
    have hany : (other.terms.any (fun t => t.atoms.any (fun a => (conv a).isNone))) = false := by
      apply List.any_eq_false.mpr
      intro t ht
      have : t.atoms.any (fun a => (conv a).isNone) = false := by
        apply List.any_eq_false.mpr
        intro x hx
        have := h t ht x hx
        cases hc : conv x <;> simp_all
      simp [this]
    simp only [he', hany, Bool.false_eq_true, if_false]
    exact ⟨_, rfl⟩

/-- a term whose atoms all lie below `n` is never superseded by tuples that are non-empty and lie at or above `n` -/
theorem superseded_false_of_sep (tuples : List (List Nat)) (t : Term) (n : Nat) (ht : ∀ x ∈ t.atoms, x < n)
    (hu : ∀ u ∈ tuples, u ≠ [] ∧ ∀ y ∈ u, n ≤ y) : superseded tuples t = false := by
  cases hs : superseded tuples t with
  | false => rfl
  | true =>
    exfalso
    simp only [superseded, Bool.or_eq_true, List.any_eq_true, decide_eq_true_eq] at hs
    have key : ∀ u ∈ tuples, ∀ l : List Nat, (∀ y, y ∈ l ↔ y ∈ u) → t.atoms ≠ l := by
      intro u hmem l hl e
      obtain ⟨hne, hge⟩ := hu u hmem
      obtain ⟨x, hx⟩ := List.exists_mem_of_ne_nil _ hne
      have : x ∈ t.atoms := by rw [e]; exact (hl _).mpr hx
      have h1 := ht x this
      have h2 := hge x hx
      omega
    rcases hs with ⟨u, hmem, e⟩ | ⟨u, hmem, e⟩
    · exact key u hmem _ (fun _ => Iff.rfl) e
    · exact key u hmem _ (fun _ => List.mem_reverse) e

/-- the hypotheses under which one term kind is extended by pure concatenation -/
structure TabDisjoint (mine other : TermTable) (n m : Nat) : Prop where
  labels : other.xlabels = mine.xlabels
  nodup : mine.xlabels.Nodup
  mineRows : ∀ t ∈ mine.terms, t.extra.length = mine.xlabels.length
  otherRows : ∀ t ∈ other.terms, t.extra.length = mine.xlabels.length
  mineIdx : ∀ t ∈ mine.terms, ∀ x ∈ t.atoms, x < n
  otherIdx : ∀ t ∈ other.terms, t.atoms ≠ [] ∧ ∀ x ∈ t.atoms, x < m

/-- a term of the appended image: atom indices shifted, type shifted -/
def shiftTerm (n off : Nat) (t : Term) : Term := { t with atoms := t.atoms.map (· + n), ty := t.ty + off }

theorem extendWith_disjoint (mine other : TermTable) (n m off : Nat) (conv : Nat → Option Nat)
    (hd : TabDisjoint mine other n m) (hconv : ∀ x, x < m → conv x = some (x + n)) :
    mine.extendWith other off conv
      = .ok { mine with terms := mine.terms ++ other.terms.map (shiftTerm n off) } := by
  have hsome : ∀ t ∈ other.terms, ∀ x ∈ t.atoms, (conv x).isSome = true := by
    intro t ht x hx
    rw [hconv x ((hd.otherIdx t ht).2 x hx)]; rfl
  obtain ⟨res, hres⟩ := extendWith_total mine other off conv hsome
  obtain ⟨h1, h2, h3, _⟩ := extendWith_spec mine other res off conv hres
  rw [hres]
  have hl : mergeLabels mine.xlabels other.xlabels = mine.xlabels := by rw [hd.labels, mergeLabels_self]
  rw [hl] at h1 h2
  have hnew : other.terms.map (convTerm mine.xlabels other.xlabels off conv) = other.terms.map (shiftTerm n off) := by
    apply List.map_congr_left
    intro t ht
    unfold convTerm shiftTerm
    have hat : t.atoms.map (fun a => (conv a).getD 0) = t.atoms.map (· + n) := by
      apply List.map_congr_left
      intro x hx
      rw [hconv x ((hd.otherIdx t ht).2 x hx)]; rfl
    rw [hat, hd.labels, matchRow_self _ hd.nodup _ (hd.otherRows t ht)]
  have hkeep : mine.terms.filter (fun t => !superseded
      ((other.terms.map (convTerm mine.xlabels other.xlabels off conv)).map (·.atoms)) t) = mine.terms := by
    apply List.filter_eq_self.mpr
    intro t ht
    rw [hnew, superseded_false_of_sep _ t n (hd.mineIdx t ht)]
    · rfl
    · intro u hu
      simp only [List.map_map, List.mem_map, Function.comp] at hu
      obtain ⟨w, hw, rfl⟩ := hu
      obtain ⟨hne, _⟩ := hd.otherIdx w hw
      refine ⟨by simpa [shiftTerm] using hne, ?_⟩
      intro y hy
      obtain ⟨x, _, rfl⟩ := List.mem_map.mp hy
      omega
  have hpad : mine.terms.map (padTerm mine.xlabels.length) = mine.terms := by
    conv => rhs; rw [← List.map_id mine.terms]
    apply List.map_congr_left
    intro t ht
    unfold padTerm
    rw [padRow_of_length _ _ (hd.mineRows t ht)]; rfl
  rw [hkeep, hpad, hnew] at h1
  cases res
  simp_all

/-- hypotheses under which `a.extend b (some o) []` is pure concatenation: same label lists (without repeats),
    every extra row as wide as its label list, every term index inside its own structure, no empty term -/
structure NoMapOK (a b : Atoms) : Prop where
  labels : b.xlabels = a.xlabels
  nodup : a.xlabels.Nodup
  aRows : ∀ r ∈ a.atoms, r.extra.length = a.xlabels.length
  bRows : ∀ r ∈ b.atoms, r.extra.length = a.xlabels.length
  bonds : TabDisjoint a.bonds b.bonds a.atoms.length b.atoms.length
  angles : TabDisjoint a.angles b.angles a.atoms.length b.atoms.length
  dihedrals : TabDisjoint a.dihedrals b.dihedrals a.atoms.length b.atoms.length
  impropers : TabDisjoint a.impropers b.impropers a.atoms.length b.atoms.length

/-- `b` stacked after `a`: atoms appended (types + atom offset), terms appended with indices shifted by `|a|` -/
def stackOn (a b : Atoms) (o : Offsets) : Atoms :=
  { a with
    atoms := a.atoms ++ b.atoms.map (fun r => { r with ty := r.ty + o.atom })
    bonds := { a.bonds with terms := a.bonds.terms ++ b.bonds.terms.map (shiftTerm a.atoms.length o.bond) }
    angles := { a.angles with terms := a.angles.terms ++ b.angles.terms.map (shiftTerm a.atoms.length o.angle) }
    dihedrals := { a.dihedrals with
      terms := a.dihedrals.terms ++ b.dihedrals.terms.map (shiftTerm a.atoms.length o.dihedral) }
    impropers := { a.impropers with
      terms := a.impropers.terms ++ b.impropers.terms.map (shiftTerm a.atoms.length o.improper) } }

theorem extConv_nomap (a b : Atoms) (x : Nat) (hx : x < b.atoms.length) :
    extConv a b [] x = some (x + a.atoms.length) := by
  have hto : extToAdd b [] = List.range b.atoms.length := by
    unfold extToAdd
    apply List.filter_eq_self.mpr
    intro i _; rfl
  have hl : lookupLast [] x = none := rfl
  simp only [extConv, hl, hto, indexOf?_range _ _ hx, Option.map_some]

theorem extend_nomap (a b : Atoms) (o : Offsets) (h : NoMapOK a b) :
    a.extend b (some o) [] = .ok (stackOn a b o) := by
  rw [extend_eq_core]
  show extendCore a o b [] = _
  unfold extendCore
  have g1 : (([] : List (Nat × Nat)).map (·.1)).Nodup' = true := rfl
  have g2 : ([] : List (Nat × Nat)).any (fun kv => decide (kv.1 ≥ b.atoms.length) || decide (kv.2 ≥ a.atoms.length)) = false := rfl
  simp only [g1, g2, Bool.not_true, Bool.false_eq_true, if_false]
  rw [extendWith_disjoint _ _ _ _ _ _ h.bonds (extConv_nomap a b),
    extendWith_disjoint _ _ _ _ _ _ h.angles (extConv_nomap a b),
    extendWith_disjoint _ _ _ _ _ _ h.dihedrals (extConv_nomap a b),
    extendWith_disjoint _ _ _ _ _ _ h.impropers (extConv_nomap a b)]
  simp only [bind, Except.bind, pure, Except.pure]
  have hl : extLabels a b = a.xlabels := by unfold extLabels; rw [h.labels, mergeLabels_self]
  have hpad : extPadded a b = a.atoms := by
    unfold extPadded
    conv => rhs; rw [← List.map_id a.atoms]
    apply List.map_congr_left
    intro r hr
    rw [hl, padRow_of_length _ _ (h.aRows r hr)]; rfl
  have hadd : extAdded a b o [] = b.atoms.map (fun r => { r with ty := r.ty + o.atom }) := by
    rw [extAdded_eq]
    have hf : (b.atoms.zipIdx).filter (fun q => !(([] : List (Nat × Nat)).map (·.1)).contains q.2) = b.atoms.zipIdx :=
      List.filter_eq_self.mpr (fun _ _ => rfl)
    rw [hf]
    have hm : (b.atoms.zipIdx).map (fun q => appendRow a b o q.1) = (b.atoms.zipIdx.map Prod.fst).map (appendRow a b o) := by
      rw [List.map_map]; rfl
    rw [hm, List.zipIdx_map_fst]
    apply List.map_congr_left
    intro r hr
    unfold appendRow
    rw [hl, h.labels, matchRow_self _ h.nodup _ (h.bRows r hr)]
  simp only [List.foldl_nil, hpad, hadd, hl]
  rfl

/-! ### term indices stay inside; extension of an already extended structure (for `extend_twice`) -/

/-- every atom index used by the terms of a table is `< n` -/
def TabInside (t : TermTable) (n : Nat) : Prop := ∀ u ∈ t.terms, ∀ x ∈ u.atoms, x < n

instance (t : TermTable) (n : Nat) : Decidable (TabInside t n) := by unfold TabInside; infer_instance

/-- no term of the table has an empty atom tuple -/
def TabNonEmpty (t : TermTable) : Prop := ∀ u ∈ t.terms, u.atoms ≠ []

instance (t : TermTable) : Decidable (TabNonEmpty t) := by unfold TabNonEmpty; infer_instance

theorem extendWith_inside (mine other res : TermTable) (off : Nat) (conv : Nat → Option Nat) (n N : Nat)
    (h : mine.extendWith other off conv = .ok res) (hm : TabInside mine n) (hn : n ≤ N)
    (hc : ∀ t ∈ other.terms, ∀ x ∈ t.atoms, ∃ y, conv x = some y ∧ y < N) : TabInside res N := by
  obtain ⟨h1, _, _, _⟩ := extendWith_spec mine other res off conv h
  intro u hu x hx
  rw [h1] at hu
  rcases List.mem_append.mp hu with hu | hu
  · obtain ⟨t, ht, rfl⟩ := List.mem_map.mp hu
    have := hm t (List.mem_filter.mp ht).1 x (by simpa [padTerm] using hx)
    omega
  · obtain ⟨t, ht, rfl⟩ := List.mem_map.mp hu
    simp only [convTerm, List.mem_map] at hx
    obtain ⟨x0, hx0, rfl⟩ := hx
    obtain ⟨y, hy, hlt⟩ := hc t ht x0 hx0
    rw [hy]; exact hlt

/-- the part of a term the force field sees: atom tuple and type id -/
def Term.core (t : Term) : List Nat × Nat := (t.atoms, t.ty)

/-- extending by terms that all land at or above `n` while every existing index is below `n`:
    nothing is superseded, the new terms are the other's terms shifted by `n` with type `+ off` -/
theorem extendWith_sep_core (mine other res : TermTable) (off : Nat) (conv : Nat → Option Nat) (n m : Nat)
    (h : mine.extendWith other off conv = .ok res) (hm : TabInside mine n)
    (ho : TabNonEmpty other) (hi : TabInside other m) (hconv : ∀ x, x < m → conv x = some (x + n)) :
    res.terms.map Term.core
      = mine.terms.map Term.core ++ other.terms.map (fun t => (t.atoms.map (· + n), t.ty + off)) := by
  obtain ⟨h1, _, _, _⟩ := extendWith_spec mine other res off conv h
  have hkeep : mine.terms.filter (fun t => !superseded
      ((other.terms.map (convTerm (mergeLabels mine.xlabels other.xlabels) other.xlabels off conv)).map (·.atoms)) t)
        = mine.terms := by
    apply List.filter_eq_self.mpr
    intro t ht
    rw [superseded_false_of_sep _ t n (hm t ht)]
    · rfl
    · intro u hu
      simp only [List.map_map, List.mem_map, Function.comp] at hu
      obtain ⟨w, hw, rfl⟩ := hu
      refine ⟨by simpa [convTerm] using ho w hw, ?_⟩
      intro y hy
      simp only [convTerm, List.mem_map] at hy
      obtain ⟨x, hx, rfl⟩ := hy
      rw [hconv x (hi w hw x hx)]
      simp
  rw [hkeep] at h1
  rw [h1, List.map_append, List.map_map, List.map_map]
  congr 1
  apply List.map_congr_left
  intro t ht
  simp only [Function.comp, Term.core, convTerm, Prod.mk.injEq, and_true]
  apply List.map_congr_left
  intro x hx
  rw [hconv x (hi t ht x hx)]; rfl

end Mofun
