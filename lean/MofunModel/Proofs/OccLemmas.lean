/-
  OccLemmas.lean — invariances of the SPEC-level occurrence set `Occ` (Model/Occ.lean), for C03:
  shifting the whole structure, moving individual atoms by lattice vectors (wrapping), permuting the atoms.
  No oracle, no search: these are statements about what the search is supposed to find.
-/
import MofunModel.Model.Occ
import Mathlib.Tactic.Ring
import Mathlib.Tactic.Linarith

namespace Mofun

/-! ### `sortNat` depends only on the multiset -/

theorem insertNat_comm (a b : Nat) (l : List Nat) : insertNat a (insertNat b l) = insertNat b (insertNat a l) := by
  induction l with
  | nil =>
    simp only [insertNat]
    by_cases h1 : a ≤ b <;> by_cases h2 : b ≤ a <;> simp [h1, h2] <;> omega
  | cons c cs ih =>
    by_cases hac : a ≤ c <;> by_cases hbc : b ≤ c <;> by_cases hab : a ≤ b <;> by_cases hba : b ≤ a <;>
      simp [insertNat, hac, hbc, hab, hba, ih] <;> omega

theorem sortNat_cons (a : Nat) (l : List Nat) : sortNat (a :: l) = insertNat a (sortNat l) := rfl

theorem sortNat_perm_eq {l₁ l₂ : List Nat} (h : l₁.Perm l₂) : sortNat l₁ = sortNat l₂ := by
  induction h with
  | nil => rfl
  | cons x _ ih => simp only [sortNat_cons, ih]
  | swap x y l => simp only [sortNat_cons]; exact insertNat_comm y x (sortNat l)
  | trans _ _ ih1 ih2 => exact ih1.trans ih2

theorem insertNat_perm (a : Nat) (l : List Nat) : (insertNat a l).Perm (a :: l) := by
  induction l with
  | nil => simp [insertNat]
  | cons c cs ih =>
    by_cases hac : a ≤ c
    · simp [insertNat, hac]
    · simp only [insertNat, hac, if_false]
      exact (List.Perm.cons c ih).trans (List.Perm.swap a c cs)

theorem sortNat_perm (l : List Nat) : (sortNat l).Perm l := by
  induction l with
  | nil => exact List.Perm.refl _
  | cons a as ih => rw [sortNat_cons]; exact (insertNat_perm a _).trans (List.Perm.cons a ih)

/-- renaming the atoms and sorting again = sorting the renamed list -/
theorem sortNat_map_sortNat (σ : Nat → Nat) (l : List Nat) : sortNat ((sortNat l).map σ) = sortNat (l.map σ) :=
  sortNat_perm_eq ((sortNat_perm l).map σ)

/-! ### vector algebra used below -/

theorem distSq_add_right (a b c : Vec3) : distSq (Vec3.add a c) (Vec3.add b c) = distSq a b := by
  unfold distSq Vec3.normSq Vec3.dot Vec3.sub Vec3.add
  simp only
  ring

theorem add_assoc3 (a b c : Vec3) : Vec3.add (Vec3.add a b) c = Vec3.add a (Vec3.add b c) := by
  unfold Vec3.add; simp only [Vec3.mk.injEq]; refine ⟨by ring, by ring, by ring⟩

theorem add_right_comm3 (a b c : Vec3) : Vec3.add (Vec3.add a b) c = Vec3.add (Vec3.add a c) b := by
  unfold Vec3.add; simp only [Vec3.mk.injEq]; refine ⟨by ring, by ring, by ring⟩

/-! ### (a) shifting the whole structure -/

/-- the structure with every atom moved by `v` -/
def FindInput.shift (inp : FindInput) (v : Vec3) : FindInput :=
  { inp with pos := inp.pos.map (fun p => Vec3.add p v) }

theorem imagePos_shift (inp : FindInput) (v : Vec3) (g : Nat) (n : Int × Int × Int) (hg : g < inp.pos.length) :
    imagePos (inp.shift v) g n = Vec3.add (imagePos inp g n) v := by
  unfold imagePos FindInput.shift
  simp only
  have : (inp.pos.map (fun p => Vec3.add p v)).getD g Vec3.zero = Vec3.add (inp.pos.getD g Vec3.zero) v := by
    simp [List.getD_eq_getElem?_getD, List.getElem?_eq_getElem hg]
  rw [this]
  exact add_right_comm3 _ _ _

theorem rigid_shift (inp : FindInput) (v : Vec3) (epsSq : Rat) (g : Nat → Nat) (n : Nat → Int × Int × Int)
    (h : RigidOccurrence inp epsSq g n) : RigidOccurrence (inp.shift v) epsSq g n := by
  rcases h.fit with ⟨R, t, hR, hfit⟩
  exact
    { idx_lt := fun k hk => by
        have := h.idx_lt k hk
        simpa [FindInput.shift] using this
      home := h.home
      elem := h.elem
      fit := ⟨R, Vec3.add t v, hR, fun k hk => by
        have hk' : k < inp.ppos.length := hk
        rw [imagePos_shift inp v (g k) (n k) (h.idx_lt k hk'), ← add_assoc3, distSq_add_right]
        exact hfit k hk'⟩ }

theorem shift_shift_neg (inp : FindInput) (v : Vec3) : (inp.shift v).shift ⟨-v.x, -v.y, -v.z⟩ = inp := by
  unfold FindInput.shift
  simp only [List.map_map]
  have : ((fun p => Vec3.add p ⟨-v.x, -v.y, -v.z⟩) ∘ fun p => Vec3.add p v) = id := by
    funext p
    simp only [Function.comp, Vec3.add, id]
    cases p; simp
  rw [this, List.map_id]

/-- **occ_shift.** Adding any vector `v` to all positions leaves the occurrence set unchanged. -/
theorem occ_shift_iff (inp : FindInput) (v : Vec3) (epsSq : Rat) (key : List Nat) :
    Occ (inp.shift v) epsSq key ↔ Occ inp epsSq key := by
  constructor
  · rintro ⟨g, n, h, hk⟩
    have := rigid_shift (inp.shift v) ⟨-v.x, -v.y, -v.z⟩ epsSq g n h
    rw [shift_shift_neg] at this
    exact ⟨g, n, this, hk⟩
  · rintro ⟨g, n, h, hk⟩
    exact ⟨g, n, rigid_shift inp v epsSq g n h, hk⟩

/-! ### (a') moving individual atoms by lattice vectors (wrapping into the cell) -/

/-- `inp'` is `inp` with atom `i` moved by the lattice vector with integer multipliers `w i` -/
structure LatticeMoved (inp inp' : FindInput) (w : Nat → Int × Int × Int) : Prop where
  cell : inp'.cell = inp.cell
  elems : inp'.elems = inp.elems
  pelems : inp'.pelems = inp.pelems
  ppos : inp'.ppos = inp.ppos
  len : inp'.pos.length = inp.pos.length
  pos : ∀ i, i < inp.pos.length →
    inp'.pos.getD i Vec3.zero = Vec3.add (inp.pos.getD i Vec3.zero) (inp.cell.lattice (w i).1 (w i).2.1 (w i).2.2)

theorem lattice_add (c : Mat3) (a b : Int × Int × Int) :
    Vec3.add (c.lattice a.1 a.2.1 a.2.2) (c.lattice b.1 b.2.1 b.2.2)
      = c.lattice ((a.1 + b.1 : Int) : Rat) ((a.2.1 + b.2.1 : Int) : Rat) ((a.2.2 + b.2.2 : Int) : Rat) := by
  unfold Mat3.lattice Vec3.add Vec3.smul
  simp only [Vec3.mk.injEq]
  push_cast
  refine ⟨by ring, by ring, by ring⟩

theorem rigid_latticeMoved (inp inp' : FindInput) (w : Nat → Int × Int × Int) (hm : LatticeMoved inp inp' w)
    (epsSq : Rat) (g : Nat → Nat) (n : Nat → Int × Int × Int) (h : RigidOccurrence inp epsSq g n) :
    RigidOccurrence inp' epsSq g
      (fun k => ((n k).1 - (w (g k)).1 + (w (g 0)).1, (n k).2.1 - (w (g k)).2.1 + (w (g 0)).2.1,
                 (n k).2.2 - (w (g k)).2.2 + (w (g 0)).2.2)) := by
  rcases h.fit with ⟨R, t, hR, hfit⟩
  refine
    { idx_lt := fun k hk => by rw [hm.len]; rw [hm.ppos] at hk; exact h.idx_lt k hk
      home := by simp [h.home]
      elem := fun k hk => by rw [hm.elems, hm.pelems]; rw [hm.ppos] at hk; exact h.elem k hk
      fit := ⟨R, Vec3.add t (inp.cell.lattice (w (g 0)).1 (w (g 0)).2.1 (w (g 0)).2.2), hR, fun k hk => ?_⟩ }
  rw [hm.ppos] at hk ⊢
  have hg := h.idx_lt k hk
  have himg : imagePos inp' (g k)
      ((n k).1 - (w (g k)).1 + (w (g 0)).1, (n k).2.1 - (w (g k)).2.1 + (w (g 0)).2.1,
       (n k).2.2 - (w (g k)).2.2 + (w (g 0)).2.2)
      = Vec3.add (imagePos inp (g k) (n k)) (inp.cell.lattice (w (g 0)).1 (w (g 0)).2.1 (w (g 0)).2.2) := by
    unfold imagePos
    rw [hm.pos (g k) hg, hm.cell]
    unfold Mat3.lattice Vec3.add Vec3.smul
    simp only [Vec3.mk.injEq]
    push_cast
    refine ⟨by ring, by ring, by ring⟩
  rw [himg, ← add_assoc3, distSq_add_right]
  exact hfit k hk

/-- **occ_wrap.** Moving individual atoms by lattice vectors (e.g. wrapping them into the cell) changes only the
    image vectors of an occurrence, not the occurrence set. -/
theorem occ_latticeMoved (inp inp' : FindInput) (w : Nat → Int × Int × Int) (hm : LatticeMoved inp inp' w)
    (epsSq : Rat) (key : List Nat) : Occ inp epsSq key → Occ inp' epsSq key := by
  rintro ⟨g, n, h, hk⟩
  exact ⟨g, _, rigid_latticeMoved inp inp' w hm epsSq g n h, by rw [hm.ppos]; exact hk⟩

theorem latticeMoved_symm (inp inp' : FindInput) (w : Nat → Int × Int × Int) (hm : LatticeMoved inp inp' w) :
    LatticeMoved inp' inp (fun i => (-(w i).1, -(w i).2.1, -(w i).2.2)) :=
  { cell := hm.cell.symm, elems := hm.elems.symm, pelems := hm.pelems.symm, ppos := hm.ppos.symm, len := hm.len.symm
    pos := fun i hi => by
      rw [hm.len] at hi
      rw [hm.pos i hi, hm.cell]
      unfold Mat3.lattice Vec3.add Vec3.smul
      cases h : inp.pos.getD i Vec3.zero
      simp only [Vec3.mk.injEq]
      push_cast
      refine ⟨by ring, by ring, by ring⟩ }

theorem occ_latticeMoved_iff (inp inp' : FindInput) (w : Nat → Int × Int × Int) (hm : LatticeMoved inp inp' w)
    (epsSq : Rat) (key : List Nat) : Occ inp epsSq key ↔ Occ inp' epsSq key :=
  ⟨occ_latticeMoved inp inp' w hm epsSq key,
   occ_latticeMoved inp' inp _ (latticeMoved_symm inp inp' w hm) epsSq key⟩

/-! ### (b) permuting the atoms -/

/-- `inp'` lists the atoms of `inp` in another order: old atom `i` is new atom `σ i` -/
structure Renamed (inp inp' : FindInput) (σ : Nat → Nat) : Prop where
  cell : inp'.cell = inp.cell
  pelems : inp'.pelems = inp.pelems
  ppos : inp'.ppos = inp.ppos
  lt : ∀ i, i < inp.pos.length → σ i < inp'.pos.length
  pos : ∀ i, i < inp.pos.length → inp'.pos.getD (σ i) Vec3.zero = inp.pos.getD i Vec3.zero
  elems : ∀ i, i < inp.pos.length → inp'.elems.getD (σ i) "" = inp.elems.getD i ""

theorem rigid_renamed (inp inp' : FindInput) (σ : Nat → Nat) (hr : Renamed inp inp' σ) (epsSq : Rat)
    (g : Nat → Nat) (n : Nat → Int × Int × Int) (h : RigidOccurrence inp epsSq g n) :
    RigidOccurrence inp' epsSq (fun k => σ (g k)) n := by
  rcases h.fit with ⟨R, t, hR, hfit⟩
  refine
    { idx_lt := fun k hk => by rw [hr.ppos] at hk; exact hr.lt _ (h.idx_lt k hk)
      home := h.home
      elem := fun k hk => by
        rw [hr.ppos] at hk
        rw [hr.elems _ (h.idx_lt k hk), hr.pelems]; exact h.elem k hk
      fit := ⟨R, t, hR, fun k hk => ?_⟩ }
  rw [hr.ppos] at hk ⊢
  have : imagePos inp' (σ (g k)) (n k) = imagePos inp (g k) (n k) := by
    unfold imagePos; rw [hr.pos _ (h.idx_lt k hk), hr.cell]
  rw [this]; exact hfit k hk

/-- **occ_perm.** An atom permutation `σ` maps the occurrence keys through `σ` (and sorts them again). -/
theorem occ_renamed (inp inp' : FindInput) (σ : Nat → Nat) (hr : Renamed inp inp' σ) (epsSq : Rat) (key : List Nat) :
    Occ inp epsSq key → Occ inp' epsSq (sortNat (key.map σ)) := by
  rintro ⟨g, n, h, hk⟩
  refine ⟨fun k => σ (g k), n, rigid_renamed inp inp' σ hr epsSq g n h, ?_⟩
  rw [hk, hr.ppos]
  unfold occKey
  rw [sortNat_map_sortNat, List.map_map]
  rfl

end Mofun
