/-
  Code2Topo.lean — the python `%` of the generated `Atoms.pop` index (Generated/Code.lean) in the vocabulary of
  Model/Topo.lean.  Core Lean only.
-/
import MofunModel.Generated.Code
import MofunModel.Model.Topo

namespace Mofun.Code2Topo
open Mofun Mofun.Generated

/-- python `a % b` for a positive `b` is Lean's `%` on `Int` (result in `[0, b)`), also for negative `a` -/
theorem intMod?_pos (a : Int) (n : Nat) (h : n ≠ 0) : Py.intMod? a (n : Int) = some (a % (n : Int)) := by
  unfold Py.intMod?
  simp [h, Int.fmod_eq_emod_of_nonneg]

theorem intMod?_zero (a : Int) : Py.intMod? a 0 = none := by simp [Py.intMod?]

end Mofun.Code2Topo
