/-
  Code2Terms.lean — the loop, `enumerate`, set difference and `np.delete` of the generated `delete_if_all_in_set`
  (Generated/Code.lean) in the vocabulary of Model/Terms.lean.  Core Lean only (uses Proofs/ExtendLemmas:
  `deleteIdx` is a filter on positions).
-/
import MofunModel.Generated.Code
import MofunModel.Model.Terms
import MofunModel.Proofs.ExtendLemmas

namespace Mofun.Code2Terms
open Mofun Mofun.Generated

theorem forFold_eq_foldl {α σ} (xs : List α) (f : σ → α → σ) (st : σ) : Py.forFold xs st f = xs.foldl f st := by
  induction xs generalizing st with
  | nil => rfl
  | cons x xs ih => simp only [Py.forFold, List.foldl_cons, ih]

/-- `len(set(t) - s) == 0` is the model's `allInSet` -/
theorem setDiff_empty (s t : List Nat) : (Py.setLen (Py.setDiff t s) = 0) ↔ Terms.allInSet s t = true := by
  unfold Py.setLen Py.setDiff Terms.allInSet
  constructor
  · intro h
    have : t.filter (fun x => !s.contains x) = [] := by
      cases hf : t.filter (fun x => !s.contains x) with
      | nil => rfl
      | cons a l => rw [hf] at h; simp [dedup] at h
    simpa [List.filter_eq_nil_iff] using this
  · intro h
    have : t.filter (fun x => !s.contains x) = [] := by
      simpa [List.filter_eq_nil_iff] using h
    rw [this]; rfl

theorem enumerateFrom_eq {α} (l : List α) (k : Nat) : Py.enumerateFrom k l = (l.zipIdx k).map (fun p => (p.2, p.1)) := by
  induction l generalizing k with
  | nil => rfl
  | cons x xs ih => simp [Py.enumerateFrom, List.zipIdx_cons, ih]

/-- the indices a `for i, x in enumerate(l): if P(x): acc.append(i)` loop collects -/
theorem collect_eq {α} (P : α → Bool) (l : List α) (k : Nat) (acc : List Nat) :
    (Py.enumerateFrom k l).foldl (fun acc (p : Nat × α) => if P p.2 then acc ++ [p.1] else acc) acc
      = acc ++ ((l.zipIdx k).filter (fun p => P p.1)).map (·.2) := by
  induction l generalizing k acc with
  | nil => simp [Py.enumerateFrom]
  | cons x xs ih =>
    simp only [Py.enumerateFrom, List.foldl_cons, ih, List.zipIdx_cons]
    by_cases h : P x <;> simp [h]

theorem deleteIdx_collected {α} (P : α → Bool) (l : List α) :
    deleteIdx l (((l.zipIdx).filter (fun p => P p.1)).map (·.2)) = l.filter (fun x => !P x) := by
  have := deleteIdx_append_pred l [] (((l.zipIdx).filter (fun p => P p.1)).map (·.2)) P ?_ ?_
  · simpa using this
  · intro i hi
    rw [Bool.eq_iff_iff]
    simp only [List.contains_eq_mem, decide_eq_true_eq, List.mem_map, List.mem_filter]
    constructor
    · rintro ⟨⟨x, j⟩, ⟨hm, hp⟩, rfl⟩
      rw [List.mem_zipIdx_iff_getElem?] at hm
      simp only at hm hp ⊢
      obtain ⟨_, hx⟩ := List.getElem?_eq_some_iff.mp hm
      rw [hx]; exact hp
    · intro hp
      exact ⟨(l[i], i), ⟨by rw [List.mem_zipIdx_iff_getElem?]; simp [hi], hp⟩, rfl⟩
  · intro i hi
    simp only [List.mem_map, List.mem_filter] at hi
    obtain ⟨⟨x, j⟩, ⟨hm, _⟩, rfl⟩ := hi
    rw [List.mem_zipIdx_iff_getElem?] at hm
    simp only at hm ⊢
    exact (List.getElem?_eq_some_iff.mp hm).1

end Mofun.Code2Terms
