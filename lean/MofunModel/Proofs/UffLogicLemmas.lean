/- helper lemmas for C18, decision logic (no Mathlib): set-equality of a type pair with a rule, rule lookup,
   symmetry of the torsion case analysis on attribute classes -/
import MofunModel.Model.UffLogic

namespace Mofun.Uff

/-- `pairSetEq` decides python's `{a1, a2} == set(r)` -/
theorem pairSetEq_iff (a1 a2 : String) (r : List String) :
    pairSetEq a1 a2 r = true ↔ ∀ x, x ∈ r ↔ (x = a1 ∨ x = a2) := by
  unfold pairSetEq
  simp only [Bool.and_eq_true, List.all_eq_true, Bool.or_eq_true, beq_iff_eq, List.contains_iff_mem]
  constructor
  · rintro ⟨⟨hall, h1⟩, h2⟩ x
    constructor
    · exact hall x
    · rintro (rfl | rfl) <;> assumption
  · intro h
    exact ⟨⟨fun x hx => (h x).mp hx, (h a1).mpr (Or.inl rfl)⟩, (h a2).mpr (Or.inr rfl)⟩

theorem pairSetEq_symm (a1 a2 : String) (r : List String) : pairSetEq a1 a2 r = pairSetEq a2 a1 r := by
  rw [Bool.eq_iff_iff, pairSetEq_iff, pairSetEq_iff]
  constructor <;> intro h x <;> rw [h x] <;> exact Or.comm

theorem ruleLookup_symm (a1 a2 : String) (rules : List (List String × Rat)) :
    ruleLookup a1 a2 rules = ruleLookup a2 a1 rules := by
  induction rules with
  | nil => rfl
  | cons r rest ih =>
    obtain ⟨ts, bo⟩ := r
    simp only [ruleLookup, pairSetEq_symm a1 a2 ts, ih]

theorem defaultBondOrder_symm (a1 a2 : String) : defaultBondOrder a1 a2 = defaultBondOrder a2 a1 := by
  unfold defaultBondOrder
  by_cases h : a1 = a2
  · subst h; rfl
  · have h' : ¬ a2 = a1 := fun e => h e.symm
    simp [h, h', Or.comm]

/-- no rule matches: `ruleLookup = none` iff no rule's set is `{a1, a2}` -/
theorem ruleLookup_none_iff (a1 a2 : String) (rules : List (List String × Rat)) :
    ruleLookup a1 a2 rules = none ↔ ∀ r ∈ rules, pairSetEq a1 a2 r.1 = false := by
  induction rules with
  | nil => simp [ruleLookup]
  | cons r rest ih =>
    obtain ⟨ts, bo⟩ := r
    by_cases h : pairSetEq a1 a2 ts = true
    · simp [ruleLookup, h]
    · simp only [Bool.not_eq_true] at h
      simp [ruleLookup, h, ih]

/-- the first matching rule wins -/
theorem ruleLookup_first (a1 a2 : String) (pre post : List (List String × Rat)) (ts : List String) (bo : Rat)
    (hpre : ∀ r ∈ pre, pairSetEq a1 a2 r.1 = false) (hts : pairSetEq a1 a2 ts = true) :
    ruleLookup a1 a2 (pre ++ (ts, bo) :: post) = some bo := by
  induction pre with
  | nil => simp [ruleLookup, hts]
  | cons r rest ih =>
    obtain ⟨ts', bo'⟩ := r
    have h0 : pairSetEq a1 a2 ts' = false := hpre (ts', bo') (by simp)
    have := ih (fun r hr => hpre r (by simp [hr]))
    simp [ruleLookup, h0, this]

theorem condSp3Sp3_symm (m1 m2 : MidClass) : condSp3Sp3 m2 m1 = condSp3Sp3 m1 m2 := Bool.and_comm _ _
theorem condBothOxygenGroup_symm (m1 m2 : MidClass) : condBothOxygenGroup m2 m1 = condBothOxygenGroup m1 m2 :=
  Bool.and_comm _ _
theorem condSp2Sp2_symm (m1 m2 : MidClass) : condSp2Sp2 m2 m1 = condSp2Sp2 m1 m2 := Bool.and_comm _ _
theorem condMixed_symm (m1 m2 : MidClass) : condMixed m2 m1 = condMixed m1 m2 := Bool.and_comm _ _
theorem condSp2Neighbour_symm (e0 e3 : Bool) (m1 m2 : MidClass) :
    condSp2Neighbour e3 m2 m1 e0 = condSp2Neighbour e0 m1 m2 e3 := by
  unfold condSp2Neighbour
  rw [Bool.or_comm, Bool.and_comm m1.is2 e0, Bool.and_comm e3 m2.is2]
theorem condSp3Oxygen_symm (m1 m2 : MidClass) : condSp3Oxygen m2 m1 = condSp3Oxygen m1 m2 := Bool.or_comm _ _
theorem condSp_symm (m1 m2 : MidClass) : condSp m2 m1 = condSp m1 m2 := Bool.or_comm _ _
theorem condNotMainGroup_symm (m1 m2 : MidClass) : condNotMainGroup m2 m1 = condNotMainGroup m1 m2 := by
  unfold condNotMainGroup; rw [Bool.and_comm]

/-- the case analysis on classes is symmetric under reading the torsion from the other end -/
theorem torsionOfClasses_symm (e0 e3 : Bool) (m1 m2 : MidClass) :
    torsionOfClasses e3 m2 m1 e0 = (torsionOfClasses e0 m1 m2 e3).reverse := by
  unfold torsionOfClasses
  rw [condSp3Sp3_symm, condBothOxygenGroup_symm, condSp2Sp2_symm, condMixed_symm, condSp2Neighbour_symm,
    condSp3Oxygen_symm, condSp_symm, condNotMainGroup_symm]
  generalize condSp3Sp3 m1 m2 = p1
  generalize condBothOxygenGroup m1 m2 = p2
  generalize condSp2Sp2 m1 m2 = p3
  generalize condMixed m1 m2 = p4
  generalize condSp2Neighbour e0 m1 m2 e3 = p5
  generalize condSp3Oxygen m1 m2 = p6
  generalize condSp m1 m2 = p7
  generalize condNotMainGroup m1 m2 = p8
  cases p1 <;> cases p2 <;> cases p3 <;> cases p4 <;> cases p5 <;> cases p6 <;> cases p7 <;> cases p8 <;> rfl

theorem reverse_kind (c : TorsionCase) : c.reverse.kind = c.kind := by cases c <;> rfl
theorem reverse_style (c : TorsionCase) : c.reverse.style = c.style := by cases c <;> rfl
theorem reverse_n (c : TorsionCase) : c.reverse.n = c.n := by cases c <;> rfl
theorem reverse_d (c : TorsionCase) : c.reverse.d = c.d := by cases c <;> rfl
theorem reverse_reverse (c : TorsionCase) : c.reverse.reverse = c := by cases c <;> rfl

end Mofun.Uff
