/-
  Code4Topo.lean — the set comprehension, python `%` and `sorted(…, reverse=True)` of the generated index normalisation of
  `Atoms.__delitem__` (Generated/Code.lean) in the vocabulary of Model/TopoWide.lean (`normIdx`) and Model/Topo.lean
  (`sortDesc`, `dedup`).  Core Lean only.
-/
import MofunModel.Generated.Code
import MofunModel.Model.TopoWide
import MofunModel.Proofs.DeleteLemmas

namespace Mofun.Code4Topo
open Mofun Mofun.Generated
set_option linter.unusedSimpArgs false

/-- python `i % n` for an index numpy accepts is numpy's reading of the index -/
theorem intMod?_normIdx (n : Nat) (i : Int) (j : Nat) (h : normIdx n i = some j) :
    Py.intMod? i (n : Int) = some (j : Int) := by
  unfold normIdx at h
  unfold Py.intMod?
  split at h
  · rename_i h1
    cases h
    have hn : ¬ ((n : Int) = 0) := by omega
    simp only [hn, if_false, Option.some.injEq]
    rw [Int.fmod_eq_emod_of_nonneg _ (by omega), Int.emod_eq_of_lt h1.1 h1.2]; omega
  · split at h
    · rename_i h1 h2
      cases h
      have hn : ¬ ((n : Int) = 0) := by omega
      simp only [hn, if_false, Option.some.injEq]
      rw [Int.fmod_eq_emod_of_nonneg _ (by omega)]
      have : i % (n : Int) = i + n := by
        rw [← Int.add_emod_right, Int.emod_eq_of_lt (by omega) (by omega)]
      omega
    · cases h

theorem mapM_normIdx (n : Nat) (idx : List Int) (h : ∀ i ∈ idx, (normIdx n i).isSome) :
    Py.listMapM? idx (fun i => (do let t1 ← (Py.intMod? i ((n : Nat) : Int)); pure t1)) =
      some ((idx.filterMap (normIdx n)).map Int.ofNat) := by
  induction idx with
  | nil => rfl
  | cons i is ih =>
    have hi := h i (by simp)
    obtain ⟨j, hj⟩ := Option.isSome_iff_exists.mp hi
    have ih' := ih (fun k hk => h k (by simp [hk]))
    simp only [Py.listMapM?, intMod?_normIdx n i j hj, ih', List.filterMap_cons, hj, bind, pure, Option.bind_some,
      Option.bind_eq_bind, List.map_cons]
    rfl

theorem dedup_map_ofNat (l : List Nat) : dedup (l.map Int.ofNat) = (dedup l).map Int.ofNat := by
  induction l with
  | nil => rfl
  | cons x xs ih =>
    simp only [List.map_cons, dedup, ih, List.filter_map]
    congr 2
    apply List.filter_congr
    intro y _
    simp [Function.comp] <;> omega

theorem insertDesc_map_ofNat (x : Nat) (l : List Nat) :
    Py.insertDesc (Int.ofNat x) (l.map Int.ofNat) = (insertDesc x l).map Int.ofNat := by
  induction l with
  | nil => rfl
  | cons y ys ih =>
    simp only [List.map_cons, Py.insertDesc, insertDesc]
    by_cases h : x ≥ y
    · have : Int.ofNat x ≥ Int.ofNat y := by simp; omega
      simp [h, this]
    · have : ¬ Int.ofNat x ≥ Int.ofNat y := by simp; omega
      simp only [h, this, if_false, ih, List.map_cons]
      all_goals (first | rfl | exact ih | simp [ih])

theorem sortedDesc_map_ofNat (l : List Nat) : Py.sortedDesc (l.map Int.ofNat) = (sortDesc l).map Int.ofNat := by
  induction l with
  | nil => rfl
  | cons x xs ih =>
    simp only [List.map_cons, Py.sortedDesc, sortDesc, List.foldr_cons] at ih ⊢
    rw [ih, insertDesc_map_ofNat]

end Mofun.Code4Topo
