/-
  QuatRealAlign.lean — proper rotations as 3×3 real matrices, composition of quaternion rotations, and theorem (d):
  the two-step construction of the candidate loop (`matchQuat`) reproduces an exact rigid copy with error 0.
-/
import MofunModel.Proofs.QuatRealAxis
namespace Mofun.QuatH
open Mofun.Uff Mofun.Uff.ElemFun QNum

/-! ### 3×3 real matrices, proper rotations -/

structure M3 where
  a11 : ℝ
  a12 : ℝ
  a13 : ℝ
  a21 : ℝ
  a22 : ℝ
  a23 : ℝ
  a31 : ℝ
  a32 : ℝ
  a33 : ℝ

def M3.mulVec (M : M3) (v : V3 ℝ) : V3 ℝ :=
  ⟨M.a11 * v.x + M.a12 * v.y + M.a13 * v.z, M.a21 * v.x + M.a22 * v.y + M.a23 * v.z,
   M.a31 * v.x + M.a32 * v.y + M.a33 * v.z⟩

def M3.det (M : M3) : ℝ :=
  M.a11 * (M.a22 * M.a33 - M.a23 * M.a32) - M.a12 * (M.a21 * M.a33 - M.a23 * M.a31)
    + M.a13 * (M.a21 * M.a32 - M.a22 * M.a31)

/-- a proper rotation: orthogonal (`MᵀM = 1`) with determinant 1 -/
structure M3.IsProper (M : M3) : Prop where
  c11 : M.a11 * M.a11 + M.a21 * M.a21 + M.a31 * M.a31 = 1
  c22 : M.a12 * M.a12 + M.a22 * M.a22 + M.a32 * M.a32 = 1
  c33 : M.a13 * M.a13 + M.a23 * M.a23 + M.a33 * M.a33 = 1
  c12 : M.a11 * M.a12 + M.a21 * M.a22 + M.a31 * M.a32 = 0
  c13 : M.a11 * M.a13 + M.a21 * M.a23 + M.a31 * M.a33 = 0
  c23 : M.a12 * M.a13 + M.a22 * M.a23 + M.a32 * M.a33 = 0
  det1 : M.det = 1

/-- the matrix of `rotR q` -/
def rotMat (q : Q4 ℝ) : M3 :=
  ⟨q.w * q.w + q.x * q.x - q.y * q.y - q.z * q.z, 2 * (q.x * q.y - q.z * q.w), 2 * (q.x * q.z + q.y * q.w),
   2 * (q.x * q.y + q.z * q.w), q.w * q.w - q.x * q.x + q.y * q.y - q.z * q.z, 2 * (q.y * q.z - q.x * q.w),
   2 * (q.x * q.z - q.y * q.w), 2 * (q.y * q.z + q.x * q.w), q.w * q.w - q.x * q.x - q.y * q.y + q.z * q.z⟩

theorem rotR_eq_mulVec (q : Q4 ℝ) (v : V3 ℝ) : rotR q v = (rotMat q).mulVec v := rfl

/-- the rotation of a unit quaternion is a proper rotation -/
theorem rotMat_proper (q : Q4 ℝ) (h : Q4.normSq q = 1) : (rotMat q).IsProper := by
  obtain ⟨x, y, z, w⟩ := q
  unfold Q4.normSq at h
  simp only at h
  constructor <;> simp only [rotMat, M3.det]
  · linear_combination (x * x + y * y + z * z + w * w + 1) * h
  · linear_combination (x * x + y * y + z * z + w * w + 1) * h
  · linear_combination (x * x + y * y + z * z + w * w + 1) * h
  · ring
  · ring
  · ring
  · linear_combination ((x * x + y * y + z * z + w * w) ^ 2 + (x * x + y * y + z * z + w * w) + 1) * h

/-- a proper rotation preserves dot products -/
theorem proper_dot (M : M3) (h : M.IsProper) (u v : V3 ℝ) : V3.dot (M.mulVec u) (M.mulVec v) = V3.dot u v := by
  obtain ⟨c11, c22, c33, c12, c13, c23, _⟩ := h
  simp only [V3.dot, M3.mulVec]
  linear_combination (u.x * v.x) * c11 + (u.y * v.y) * c22 + (u.z * v.z) * c33 + (u.x * v.y + u.y * v.x) * c12
    + (u.x * v.z + u.z * v.x) * c13 + (u.y * v.z + u.z * v.y) * c23

/-- the cofactor matrix -/
def M3.cof (M : M3) : M3 :=
  ⟨M.a22 * M.a33 - M.a23 * M.a32, -(M.a21 * M.a33 - M.a23 * M.a31), M.a21 * M.a32 - M.a22 * M.a31,
   -(M.a12 * M.a33 - M.a13 * M.a32), M.a11 * M.a33 - M.a13 * M.a31, -(M.a11 * M.a32 - M.a12 * M.a31),
   M.a12 * M.a23 - M.a13 * M.a22, -(M.a11 * M.a23 - M.a13 * M.a21), M.a11 * M.a22 - M.a12 * M.a21⟩

theorem cross_mulVec (M : M3) (u v : V3 ℝ) :
    V3.cross (M.mulVec u) (M.mulVec v) = M.cof.mulVec (V3.cross u v) := by
  simp only [V3.cross, M3.mulVec, M3.cof, V3.mk.injEq]
  refine ⟨?_, ?_, ?_⟩ <;> ring

/-- for a proper rotation the cofactor matrix is the matrix itself -/
theorem proper_cof (M : M3) (h : M.IsProper) : M.cof = M := by
  obtain ⟨c11, c22, c33, c12, c13, c23, d⟩ := h
  obtain ⟨a11, a12, a13, a21, a22, a23, a31, a32, a33⟩ := M
  simp only [M3.det] at *
  simp only [M3.cof, M3.mk.injEq]
  refine ⟨?_, ?_, ?_, ?_, ?_, ?_, ?_, ?_, ?_⟩
  · linear_combination a11 * d - (a22 * a33 - a23 * a32) * c11 - (-(a21 * a33 - a23 * a31)) * c12 - (a21 * a32 - a22 * a31) * c13
  · linear_combination a12 * d - (a22 * a33 - a23 * a32) * c12 - (-(a21 * a33 - a23 * a31)) * c22 - (a21 * a32 - a22 * a31) * c23
  · linear_combination a13 * d - (a22 * a33 - a23 * a32) * c13 - (-(a21 * a33 - a23 * a31)) * c23 - (a21 * a32 - a22 * a31) * c33
  · linear_combination a21 * d - (-(a12 * a33 - a13 * a32)) * c11 - (a11 * a33 - a13 * a31) * c12 - (-(a11 * a32 - a12 * a31)) * c13
  · linear_combination a22 * d - (-(a12 * a33 - a13 * a32)) * c12 - (a11 * a33 - a13 * a31) * c22 - (-(a11 * a32 - a12 * a31)) * c23
  · linear_combination a23 * d - (-(a12 * a33 - a13 * a32)) * c13 - (a11 * a33 - a13 * a31) * c23 - (-(a11 * a32 - a12 * a31)) * c33
  · linear_combination a31 * d - (a12 * a23 - a13 * a22) * c11 - (-(a11 * a23 - a13 * a21)) * c12 - (a11 * a22 - a12 * a21) * c13
  · linear_combination a32 * d - (a12 * a23 - a13 * a22) * c12 - (-(a11 * a23 - a13 * a21)) * c22 - (a11 * a22 - a12 * a21) * c23
  · linear_combination a33 * d - (a12 * a23 - a13 * a22) * c13 - (-(a11 * a23 - a13 * a21)) * c23 - (a11 * a22 - a12 * a21) * c33


/-- a proper rotation preserves cross products -/
theorem proper_cross (M : M3) (h : M.IsProper) (u v : V3 ℝ) :
    M.mulVec (V3.cross u v) = V3.cross (M.mulVec u) (M.mulVec v) := by
  rw [cross_mulVec, proper_cof M h]

theorem mulVec_smul (M : M3) (t : ℝ) (v : V3 ℝ) : M.mulVec (V3.smul t v) = V3.smul t (M.mulVec v) := by
  simp only [M3.mulVec, V3.smul, V3.mk.injEq]; refine ⟨?_, ?_, ?_⟩ <;> ring

theorem mulVec_add (M : M3) (u v : V3 ℝ) : M.mulVec (V3.add u v) = V3.add (M.mulVec u) (M.mulVec v) := by
  simp only [M3.mulVec, V3.add, V3.mk.injEq]; refine ⟨?_, ?_, ?_⟩ <;> ring

theorem mulVec_sub (M : M3) (u v : V3 ℝ) : M.mulVec (V3.sub u v) = V3.sub (M.mulVec u) (M.mulVec v) := by
  simp only [M3.mulVec, V3.sub, V3.mk.injEq]; refine ⟨?_, ?_, ?_⟩ <;> ring

theorem mulVec_divs (M : M3) (v : V3 ℝ) (t : ℝ) : M.mulVec (V3.divs v t) = V3.divs (M.mulVec v) t := by
  simp only [M3.mulVec, V3.divs, V3.mk.injEq]; refine ⟨?_, ?_, ?_⟩ <;> ring

theorem mulVec_zero (M : M3) : M.mulVec ⟨0, 0, 0⟩ = ⟨0, 0, 0⟩ := by
  simp only [M3.mulVec, V3.mk.injEq]; refine ⟨?_, ?_, ?_⟩ <;> ring

/-- a proper rotation preserves lengths -/
theorem proper_norm (M : M3) (h : M.IsProper) (v : V3 ℝ) : V3.norm (M.mulVec v) = V3.norm v := by
  have := proper_dot M h v v
  unfold V3.dot at this
  rw [norm_real, norm_real, this]

theorem proper_unitOf (M : M3) (h : M.IsProper) (v : V3 ℝ) : M.mulVec (unitOf v) = unitOf (M.mulVec v) := by
  unfold unitOf; rw [mulVec_divs, proper_norm M h]

theorem proper_projectOff (M : M3) (h : M.IsProper) (p a : V3 ℝ) :
    M.mulVec (projectOff p a) = projectOff (M.mulVec p) (M.mulVec a) := by
  unfold projectOff
  rw [mulVec_sub, mulVec_smul, proper_dot M h, proper_dot M h]

/-- the rotation of a Hamilton product is the composition of the rotations (`p ⊗ q`: `q` first) -/
theorem rotR_compose (p q : Q4 ℝ) (v : V3 ℝ) : rotR (composeQuat p q) v = rotR p (rotR q v) := by
  obtain ⟨px, py, pz, pw⟩ := p
  obtain ⟨qx, qy, qz, qw⟩ := q
  obtain ⟨x, y, z⟩ := v
  simp only [rotR, composeQuat, V3.cross, V3.mk.injEq]
  refine ⟨?_, ?_, ?_⟩ <;> ring

theorem normSq_compose (p q : Q4 ℝ) : Q4.normSq (composeQuat p q) = Q4.normSq p * Q4.normSq q := by
  obtain ⟨px, py, pz, pw⟩ := p
  obtain ⟨qx, qy, qz, qw⟩ := q
  simp only [Q4.normSq, composeQuat, V3.cross]
  ring

/-- scipy's product of two unit quaternions: the normalisation is void, the rotations compose -/
theorem mulRot_unit (p q : Q4 ℝ) (hp : Q4.normSq p = 1) (hq : Q4.normSq q = 1) :
    mulRot p q = composeQuat p q ∧ Q4.normSq (mulRot p q) = 1 := by
  have h : Q4.normSq (composeQuat p q) = 1 := by rw [normSq_compose, hp, hq]; norm_num
  unfold mulRot
  rw [fromQuat_unit _ h]
  exact ⟨rfl, h⟩

/-- two linear maps that agree on `s`, `o` and `s × o ≠ 0` agree everywhere -/
theorem agree_of_basis (A B : M3) (s o : V3 ℝ)
    (hs : A.mulVec s = B.mulVec s) (ho : A.mulVec o = B.mulVec o)
    (hw : A.mulVec (V3.cross s o) = B.mulVec (V3.cross s o))
    (hne : V3.dot (V3.cross s o) (V3.cross s o) ≠ 0) (v : V3 ℝ) : A.mulVec v = B.mulVec v := by
  obtain ⟨a11, a12, a13, a21, a22, a23, a31, a32, a33⟩ := A
  obtain ⟨b11, b12, b13, b21, b22, b23, b31, b32, b33⟩ := B
  obtain ⟨sx, sy, sz⟩ := s
  obtain ⟨ox, oy, oz⟩ := o
  obtain ⟨x, y, z⟩ := v
  simp only [M3.mulVec, V3.cross, V3.mk.injEq] at hs ho hw
  simp only [V3.dot, V3.cross] at hne
  obtain ⟨hs1, hs2, hs3⟩ := hs
  obtain ⟨ho1, ho2, ho3⟩ := ho
  obtain ⟨hw1, hw2, hw3⟩ := hw
  simp only [M3.mulVec, V3.mk.injEq]
  set vs := x * sx + y * sy + z * sz with hvs
  set vo := x * ox + y * oy + z * oz with hvo
  set ss := sx * sx + sy * sy + sz * sz with hss
  set oo := ox * ox + oy * oy + oz * oz with hoo
  set so := sx * ox + sy * oy + sz * oz with hso
  set vw := x * (sy * oz - sz * oy) + y * (sz * ox - sx * oz) + z * (sx * oy - sy * ox) with hvw
  refine ⟨?_, ?_, ?_⟩
  · apply mul_left_cancel₀ hne
    linear_combination (vs * oo - vo * so) * hs1 + (vo * ss - vs * so) * ho1 + vw * hw1
  · apply mul_left_cancel₀ hne
    linear_combination (vs * oo - vo * so) * hs2 + (vo * ss - vs * so) * ho2 + vw * hw2
  · apply mul_left_cancel₀ hne
    linear_combination (vs * oo - vo * so) * hs3 + (vo * ss - vs * so) * ho3 + vw * hw3

/-! ### the two-step construction -/

/-- what the first step needs: not the code's degenerate branch, or EXACTLY antiparallel with a drawn vector that is
    not along the search axis -/
def FirstStepOk (rv s m : V3 ℝ) : Prop :=
  qftvDegenerate s m = false ∨
    (unitOf m = V3.neg (unitOf s) ∧ (1 : ℝ) / 10 ^ 15 < V3.norm (V3.cross (unitOf s) rv))

theorem qftv_first_step (rv s m : V3 ℝ) (hs : V3.norm s ≠ 0) (hm : V3.norm m ≠ 0) (h : FirstStepOk rv s m) :
    rotR (quaternionFromTwoVectors rv s m) (unitOf s) = unitOf m ∧
      Q4.normSq (quaternionFromTwoVectors rv s m) = 1 := by
  rcases h with h | ⟨h1, h2⟩
  · exact ⟨qftv_maps rv s m hs hm h, qftv_unit rv s m hs hm h⟩
  · exact qftv_antiparallel rv s m hs h1 h2

/-- a linear map that carries the direction of `s` onto the direction of `m`, `‖m‖ = ‖s‖ ≠ 0`, carries `s` onto `m` -/
theorem mulVec_of_unit (A : M3) (s m : V3 ℝ) (hs : V3.norm s ≠ 0) (hn : V3.norm m = V3.norm s)
    (h : A.mulVec (unitOf s) = unitOf m) : A.mulVec s = m := by
  have e1 : s = V3.smul (V3.norm s) (unitOf s) := (smul_norm_divs s hs).symm
  have e2 : m = V3.smul (V3.norm m) (unitOf m) := (smul_norm_divs m (by rw [hn]; exact hs)).symm
  rw [e1, mulVec_smul, h, ← hn, ← e2]

theorem projectOff_decomp (p a : V3 ℝ) :
    p = V3.add (projectOff p a) (V3.smul (V3.dot p a / V3.dot a a) a) := by
  obtain ⟨x, y, z⟩ := p
  simp only [projectOff, V3.add, V3.sub, V3.smul, V3.mk.injEq]
  refine ⟨?_, ?_, ?_⟩ <;> ring

/-- `|s × o|² = |s|² · |o − proj_s o|²` -/
theorem cross_projectOff (s o : V3 ℝ) (hss : V3.dot s s ≠ 0) :
    V3.dot (V3.cross s o) (V3.cross s o) = V3.dot s s * V3.dot (projectOff o s) (projectOff o s) := by
  have ht : V3.dot o s / V3.dot s s * V3.dot s s = V3.dot o s := div_mul_cancel₀ _ hss
  unfold projectOff
  generalize V3.dot o s / V3.dot s s = t at ht ⊢
  unfold V3.dot V3.cross V3.sub V3.smul at *
  simp only
  linear_combination (-(t * (s.x * s.x + s.y * s.y + s.z * s.z) - (o.x * s.x + o.y * s.y + o.z * s.z))) * ht


/-- **core of (d).** For a proper rotation `M`, a search axis `s` longer than the 1e-15 guard and an orientation point
    `o` off the axis: the composed quaternion of the candidate loop is a unit quaternion whose rotation IS `M`. -/
theorem two_step_core (rv s o : V3 ℝ) (M : M3) (hM : M.IsProper)
    (hs : (1 : ℝ) / 10 ^ 15 < V3.norm s) (ho : V3.norm (projectOff o s) ≠ 0)
    (h1 : FirstStepOk rv s (M.mulVec s)) :
    Q4.normSq (mulRot (quaternionFromTwoVectorsAroundAxis
        (applyRot (quaternionFromTwoVectors rv s (M.mulVec s)) o) (M.mulVec o) (M.mulVec s))
        (quaternionFromTwoVectors rv s (M.mulVec s))) = 1 ∧
    ∀ v, rotR (mulRot (quaternionFromTwoVectorsAroundAxis
        (applyRot (quaternionFromTwoVectors rv s (M.mulVec s)) o) (M.mulVec o) (M.mulVec s))
        (quaternionFromTwoVectors rv s (M.mulVec s))) v = M.mulVec v := by
  set m := M.mulVec s with hm
  set q1 := quaternionFromTwoVectors rv s m with hq1
  have hsn : V3.norm s ≠ 0 := by
    have : (0 : ℝ) < 1 / 10 ^ 15 := by norm_num
    exact ne_of_gt (lt_trans this hs)
  have hmn : V3.norm m = V3.norm s := proper_norm M hM s
  have hmn0 : V3.norm m ≠ 0 := by rw [hmn]; exact hsn
  obtain ⟨hR1u, hq1u⟩ := qftv_first_step rv s m hsn hmn0 h1
  set A := rotMat q1 with hA
  have hAp : A.IsProper := rotMat_proper q1 hq1u
  have hAs : A.mulVec s = m := mulVec_of_unit A s m hsn hmn (by rw [hA, ← rotR_eq_mulVec]; exact hR1u)
  have happ : applyRot q1 o = A.mulVec o := by rw [applyRot_eq_rotR, rotR_eq_mulVec]
  rw [happ]
  -- the two projections orthogonal to the match axis are images of ONE vector under two isometries
  have hu1 : projectOff (A.mulVec o) m = A.mulVec (projectOff o s) := by
    rw [proper_projectOff A hAp, hAs]
  have hu2 : projectOff (M.mulVec o) m = M.mulVec (projectOff o s) := by
    rw [proper_projectOff M hM]
  have hn1 : V3.norm (projectOff (A.mulVec o) m) = V3.norm (projectOff o s) := by rw [hu1, proper_norm A hAp]
  have hn2 : V3.norm (projectOff (M.mulVec o) m) = V3.norm (projectOff o s) := by rw [hu2, proper_norm M hM]
  obtain ⟨hB1, hB2, hq2u⟩ := qftvaa_spec (A.mulVec o) (M.mulVec o) m (by rw [hmn]; exact hs)
    (by rw [hn1]; exact ho) (by rw [hn2]; exact ho)
  set q2 := quaternionFromTwoVectorsAroundAxis (A.mulVec o) (M.mulVec o) m with hq2
  set B := rotMat q2 with hB
  obtain ⟨hmul, hqu⟩ := mulRot_unit q2 q1 hq2u hq1u
  refine ⟨hqu, ?_⟩
  have hRv : ∀ v, rotR (mulRot q2 q1) v = B.mulVec (A.mulVec v) := by
    intro v; rw [hmul, rotR_compose, rotR_eq_mulVec, rotR_eq_mulVec]
  set R := rotMat (mulRot q2 q1) with hR
  have hRp : R.IsProper := rotMat_proper _ hqu
  have hRv' : ∀ v, R.mulVec v = B.mulVec (A.mulVec v) := by
    intro v; rw [hR, ← rotR_eq_mulVec]; exact hRv v
  -- agreement on the search axis
  have hBm : B.mulVec m = m := hB1
  have hRs : R.mulVec s = M.mulVec s := by rw [hRv', hAs, hBm]
  -- agreement on the orientation point
  have hRo : R.mulVec o = M.mulVec o := by
    rw [hRv']
    have d1 := projectOff_decomp (A.mulVec o) m
    have d2 := projectOff_decomp (M.mulVec o) m
    have hlam : V3.dot (A.mulVec o) m = V3.dot (M.mulVec o) m := by
      rw [← hAs, proper_dot A hAp, hAs, hm, proper_dot M hM]
    have hBu : B.mulVec (projectOff (A.mulVec o) m) = projectOff (M.mulVec o) m := by
      have e1 : projectOff (A.mulVec o) m =
          V3.smul (V3.norm (projectOff (A.mulVec o) m)) (unitOf (projectOff (A.mulVec o) m)) :=
        (smul_norm_divs _ (by rw [hn1]; exact ho)).symm
      have e2 : projectOff (M.mulVec o) m =
          V3.smul (V3.norm (projectOff (M.mulVec o) m)) (unitOf (projectOff (M.mulVec o) m)) :=
        (smul_norm_divs _ (by rw [hn2]; exact ho)).symm
      have hB2' : B.mulVec (unitOf (projectOff (A.mulVec o) m)) = unitOf (projectOff (M.mulVec o) m) := hB2
      rw [e1, mulVec_smul, hB2', hn1, ← hn2, ← e2]
    rw [d1, mulVec_add, mulVec_smul, hBu, hBm, hlam]
    exact d2.symm
  -- agreement on the cross product, hence everywhere
  have hRw : R.mulVec (V3.cross s o) = M.mulVec (V3.cross s o) := by
    rw [proper_cross R hRp, proper_cross M hM, hRs, hRo]
  have hss : V3.dot s s ≠ 0 := by
    have := norm_sq s
    unfold V3.dot; rw [← this]; exact mul_ne_zero hsn hsn
  have hne : V3.dot (V3.cross s o) (V3.cross s o) ≠ 0 := by
    rw [cross_projectOff s o hss]
    apply mul_ne_zero hss
    have := norm_sq (projectOff o s)
    unfold V3.dot; rw [← this]; exact mul_ne_zero ho ho
  intro v
  rw [rotR_eq_mulVec]
  exact agree_of_basis R M s o hRs hRo hRw hne v


/-! ### the candidate loop on an exact rigid copy -/

/-- the candidate is an EXACT rigid copy of the (translated) pattern: `A[i] = M·P[i] + t` -/
def ExactCopy (M : M3) (t : V3 ℝ) (tp ap : List (V3 ℝ)) : Prop :=
  ap.length = tp.length ∧ ∀ i, i < tp.length → getV ap i = V3.add (M.mulVec (getV tp i)) t

theorem exactCopy_sub (M : M3) (t : V3 ℝ) (tp ap : List (V3 ℝ)) (h : ExactCopy M t tp ap) (ax1 : Nat)
    (h1 : ax1 < tp.length) (h0 : getV tp ax1 = ⟨0, 0, 0⟩) (i : Nat) (hi : i < tp.length) :
    V3.sub (getV ap i) (getV ap ax1) = M.mulVec (getV tp i) := by
  rw [h.2 i hi, h.2 ax1 h1, h0, mulVec_zero]
  generalize M.mulVec (getV tp i) = a
  obtain ⟨x, y, z⟩ := a
  obtain ⟨tx, ty, tz⟩ := t
  simp only [V3.sub, V3.add, V3.mk.injEq]
  refine ⟨?_, ?_, ?_⟩ <;> ring

/-- **(d) two_step_aligns.** Pattern `tp` (first axis point at the origin, as after the code's translation), more than
    two atoms, search axis `tp[ax2]` longer than the 1e-15 guard, orientation point `tp[op]` off the axis; candidate
    `ap` an EXACT rigid copy `A[i] = M·P[i] + t` with `M` a proper rotation; first step not in the degenerate window
    (or exactly antiparallel with a usable random vector).  Then the quaternion the candidate loop builds is a unit
    quaternion and `rotR q P[i] = A[i] − A[ax1]` for EVERY atom: the final re-check sees error 0. -/
theorem two_step_aligns (rv : V3 ℝ) (tp ap : List (V3 ℝ)) (ax1 ax2 op : Nat) (M : M3) (t : V3 ℝ)
    (hM : M.IsProper) (hcopy : ExactCopy M t tp ap) (hlen : 2 < tp.length)
    (h1 : ax1 < tp.length) (h2 : ax2 < tp.length) (h3 : op < tp.length)
    (h0 : getV tp ax1 = ⟨0, 0, 0⟩)
    (hs : (1 : ℝ) / 10 ^ 15 < V3.norm (getV tp ax2))
    (ho : V3.norm (projectOff (getV tp op) (getV tp ax2)) ≠ 0)
    (hfirst : FirstStepOk rv (getV tp ax2) (M.mulVec (getV tp ax2))) :
    Q4.normSq (matchQuat rv tp ap ax1 ax2 op) = 1 ∧
    ∀ i, i < tp.length → rotR (matchQuat rv tp ap ax1 ax2 op) (getV tp i) = V3.sub (getV ap i) (getV ap ax1) := by
  have hg1 : ap.length > 1 := by rw [hcopy.1]; omega
  have hg2 : ap.length > 2 := by rw [hcopy.1]; omega
  have e2 := exactCopy_sub M t tp ap hcopy ax1 h1 h0 ax2 h2
  have e3 := exactCopy_sub M t tp ap hcopy ax1 h1 h0 op h3
  have hq : matchQuat rv tp ap ax1 ax2 op =
      mulRot (quaternionFromTwoVectorsAroundAxis
        (applyRot (quaternionFromTwoVectors rv (getV tp ax2) (M.mulVec (getV tp ax2))) (getV tp op))
        (M.mulVec (getV tp op)) (M.mulVec (getV tp ax2)))
        (quaternionFromTwoVectors rv (getV tp ax2) (M.mulVec (getV tp ax2))) := by
    unfold matchQuat
    simp only [hg1, hg2, if_true, e2, e3]
  obtain ⟨hu, hall⟩ := two_step_core rv (getV tp ax2) (getV tp op) M hM hs ho hfirst
  rw [hq]
  refine ⟨hu, fun i hi => ?_⟩
  rw [hall, exactCopy_sub M t tp ap hcopy ax1 h1 h0 i hi]

/-- **(d), two atoms.** Only the first step is needed: the axis atom lands on the candidate's axis atom exactly. -/
theorem two_atoms_align (rv : V3 ℝ) (tp ap : List (V3 ℝ)) (ax1 ax2 op : Nat) (M : M3) (t : V3 ℝ)
    (hM : M.IsProper) (hcopy : ExactCopy M t tp ap) (hlen : tp.length = 2)
    (h1 : ax1 < 2) (h2 : ax2 < 2) (hne : ax1 ≠ ax2)
    (h0 : getV tp ax1 = ⟨0, 0, 0⟩) (hs : V3.norm (getV tp ax2) ≠ 0)
    (hfirst : FirstStepOk rv (getV tp ax2) (M.mulVec (getV tp ax2))) :
    Q4.normSq (matchQuat rv tp ap ax1 ax2 op) = 1 ∧
    ∀ i, i < tp.length → rotR (matchQuat rv tp ap ax1 ax2 op) (getV tp i) = V3.sub (getV ap i) (getV ap ax1) := by
  have hg1 : ap.length > 1 := by rw [hcopy.1]; omega
  have hg2 : ¬ ap.length > 2 := by rw [hcopy.1]; omega
  have h1' : ax1 < tp.length := by omega
  have h2' : ax2 < tp.length := by omega
  have e2 := exactCopy_sub M t tp ap hcopy ax1 h1' h0 ax2 h2'
  have hq : matchQuat rv tp ap ax1 ax2 op = quaternionFromTwoVectors rv (getV tp ax2) (M.mulVec (getV tp ax2)) := by
    unfold matchQuat
    simp only [hg1, hg2, if_true, if_false, e2]
  set s := getV tp ax2 with hsdef
  have hmn : V3.norm (M.mulVec s) = V3.norm s := proper_norm M hM s
  obtain ⟨hR, hu⟩ := qftv_first_step rv s (M.mulVec s) hs (by rw [hmn]; exact hs) hfirst
  rw [hq]
  refine ⟨hu, fun i hi => ?_⟩
  rw [exactCopy_sub M t tp ap hcopy ax1 h1' h0 i hi]
  have hi2 : i = ax1 ∨ i = ax2 := by omega
  rcases hi2 with rfl | rfl
  · rw [h0, mulVec_zero]
    simp only [rotR, V3.mk.injEq]; refine ⟨?_, ?_, ?_⟩ <;> ring
  · rw [rotR_eq_mulVec]
    exact mulVec_of_unit _ s _ hs hmn (by rw [← rotR_eq_mulVec]; exact hR)

/-- **(d), one atom.** The loop leaves `Rotation.identity()`; the single atom (at the origin after the translation)
    stays where the candidate's atom is, relative to itself. -/
theorem one_atom_align (rv : V3 ℝ) (p a : V3 ℝ) (ax1 ax2 op : Nat) (h0 : getV [p] ax1 = ⟨0, 0, 0⟩) (h1 : ax1 < 1) :
    matchQuat rv [p] [a] ax1 ax2 op = ⟨0, 0, 0, 1⟩ ∧
    ∀ i, i < 1 → rotR (matchQuat rv [p] [a] ax1 ax2 op) (getV [p] i) = V3.sub (getV [a] i) (getV [a] ax1) := by
  have hq : matchQuat rv [p] [a] ax1 ax2 op = ⟨0, 0, 0, 1⟩ := by
    unfold matchQuat Q4.identity
    simp
  refine ⟨hq, fun i hi => ?_⟩
  have hi0 : i = 0 := by omega
  have h10 : ax1 = 0 := by omega
  subst hi0; subst h10
  rw [hq, rotR_identity, h0]
  simp only [getV, List.getD_cons_zero, V3.sub, sub_self]

end Mofun.QuatH
