/-
  RotLemmas.lean — `rot q` (Model/Find.lean: the rotation `Rotation.from_quat(q).apply`, exactly, over `Rat`)
  is a PROPER rotation for every quaternion of non-zero norm:
    linear, length- and dot-product-preserving (RᵀR = I), determinant +1 (triple products preserved).
  Hence `rot` can never produce a mirror image (`rot_preserves_orientation`, `rot_ne_mirror`).
-/
import MofunModel.Model.Find
import Mathlib.Tactic.Ring
import Mathlib.Tactic.FieldSimp
import Mathlib.Tactic.Linarith

namespace Mofun

/-- the scalar triple product `a · (b × c)` = determinant of the matrix with rows (columns) `a, b, c` -/
def triple (a b c : Vec3) : Rat := Vec3.dot a (Vec3.cross b c)

/-- reflection in the plane `x = 0` (the mirror used for the decoys of the generator) -/
def mirrorX (v : Vec3) : Vec3 := ⟨-v.x, v.y, v.z⟩

/-! ### the homogeneous matrix `M(q) = |q|²·R(q)` : polynomial identities -/

theorem apply0_add (q : Quat) (a b : Vec3) :
    q.apply0 (Vec3.add a b) = Vec3.add (q.apply0 a) (q.apply0 b) := by
  simp only [Quat.apply0, Vec3.add, Vec3.mk.injEq]
  refine ⟨?_, ?_, ?_⟩ <;> ring

theorem apply0_sub (q : Quat) (a b : Vec3) :
    q.apply0 (Vec3.sub a b) = Vec3.sub (q.apply0 a) (q.apply0 b) := by
  simp only [Quat.apply0, Vec3.sub, Vec3.mk.injEq]
  refine ⟨?_, ?_, ?_⟩ <;> ring

theorem apply0_smul (q : Quat) (k : Rat) (a : Vec3) :
    q.apply0 (Vec3.smul k a) = Vec3.smul k (q.apply0 a) := by
  simp only [Quat.apply0, Vec3.smul, Vec3.mk.injEq]
  refine ⟨?_, ?_, ?_⟩ <;> ring

/-- `M(q)ᵀ M(q) = |q|⁴ · I`, in the form: dot products are multiplied by `|q|⁴` -/
theorem apply0_dot (q : Quat) (a b : Vec3) :
    Vec3.dot (q.apply0 a) (q.apply0 b) = q.normSq * q.normSq * Vec3.dot a b := by
  simp only [Quat.apply0, Vec3.dot, Quat.normSq]
  ring

/-- `‖M(q) v‖² = |q|⁴ ‖v‖²` -/
theorem apply0_normSq (q : Quat) (v : Vec3) :
    Vec3.normSq (q.apply0 v) = q.normSq * q.normSq * Vec3.normSq v := by
  unfold Vec3.normSq; exact apply0_dot q v v

/-- `det M(q) = |q|⁶`, in the form: triple products are multiplied by `|q|⁶` -/
theorem apply0_triple (q : Quat) (a b c : Vec3) :
    triple (q.apply0 a) (q.apply0 b) (q.apply0 c) = q.normSq * q.normSq * q.normSq * triple a b c := by
  simp only [triple, Quat.apply0, Vec3.dot, Vec3.cross, Quat.normSq]
  ring

/-! ### scaling -/

theorem smul_dot_smul (k : Rat) (a b : Vec3) :
    Vec3.dot (Vec3.smul k a) (Vec3.smul k b) = k * k * Vec3.dot a b := by
  simp only [Vec3.dot, Vec3.smul]; ring

theorem smul_triple (k : Rat) (a b c : Vec3) :
    triple (Vec3.smul k a) (Vec3.smul k b) (Vec3.smul k c) = k * k * k * triple a b c := by
  simp only [triple, Vec3.dot, Vec3.cross, Vec3.smul]; ring

theorem smul_add (k : Rat) (a b : Vec3) :
    Vec3.smul k (Vec3.add a b) = Vec3.add (Vec3.smul k a) (Vec3.smul k b) := by
  simp only [Vec3.smul, Vec3.add, Vec3.mk.injEq]; refine ⟨?_, ?_, ?_⟩ <;> ring

theorem smul_sub (k : Rat) (a b : Vec3) :
    Vec3.smul k (Vec3.sub a b) = Vec3.sub (Vec3.smul k a) (Vec3.smul k b) := by
  simp only [Vec3.smul, Vec3.sub, Vec3.mk.injEq]; refine ⟨?_, ?_, ?_⟩ <;> ring

theorem smul_smul_comm (k l : Rat) (a : Vec3) :
    Vec3.smul k (Vec3.smul l a) = Vec3.smul l (Vec3.smul k a) := by
  simp only [Vec3.smul, Vec3.mk.injEq]; refine ⟨?_, ?_, ?_⟩ <;> ring

/-! ### `rot q` for `|q|² ≠ 0` -/

/-- **rot_linear** (additivity, compatibility with subtraction and with scalars) -/
theorem rot_add (q : Quat) (a b : Vec3) : rot q (Vec3.add a b) = Vec3.add (rot q a) (rot q b) := by
  unfold rot; rw [apply0_add, smul_add]

theorem rot_sub (q : Quat) (a b : Vec3) : rot q (Vec3.sub a b) = Vec3.sub (rot q a) (rot q b) := by
  unfold rot; rw [apply0_sub, smul_sub]

theorem rot_smul (q : Quat) (k : Rat) (a : Vec3) : rot q (Vec3.smul k a) = Vec3.smul k (rot q a) := by
  unfold rot; rw [apply0_smul, smul_smul_comm]

theorem rot_linear (q : Quat) :
    (∀ a b, rot q (Vec3.add a b) = Vec3.add (rot q a) (rot q b)) ∧
    (∀ a b, rot q (Vec3.sub a b) = Vec3.sub (rot q a) (rot q b)) ∧
    (∀ k a, rot q (Vec3.smul k a) = Vec3.smul k (rot q a)) :=
  ⟨rot_add q, rot_sub q, rot_smul q⟩

/-- **rot_orthogonal**: `RᵀR = I` — every dot product is preserved -/
theorem rot_orthogonal (q : Quat) (hq : q.normSq ≠ 0) (a b : Vec3) :
    Vec3.dot (rot q a) (rot q b) = Vec3.dot a b := by
  unfold rot
  rw [smul_dot_smul, apply0_dot]
  field_simp

/-- **rot_isometry**: lengths are preserved -/
theorem rot_isometry (q : Quat) (hq : q.normSq ≠ 0) (v : Vec3) :
    Vec3.normSq (rot q v) = Vec3.normSq v := by
  unfold Vec3.normSq; exact rot_orthogonal q hq v v

/-- distances are preserved -/
theorem rot_distSq (q : Quat) (hq : q.normSq ≠ 0) (a b : Vec3) :
    distSq (rot q a) (rot q b) = distSq a b := by
  unfold distSq; rw [← rot_sub, rot_isometry q hq]

/-- **rot_det_one**: the determinant of the matrix of `rot q` is `+1` — every triple product
    `a · (b × c)` (= `det [a b c]`) is preserved, so `det R · det [a b c] = det [a b c]` for all `a b c`. -/
theorem rot_det_one (q : Quat) (hq : q.normSq ≠ 0) (a b c : Vec3) :
    triple (rot q a) (rot q b) (rot q c) = triple a b c := by
  unfold rot
  rw [smul_triple, apply0_triple]
  field_simp

/-- the nine entries of `RᵀR = I` and `det R = 1` on the standard basis -/
theorem rot_matrix_orthonormal (q : Quat) (hq : q.normSq ≠ 0) :
    let e1 : Vec3 := ⟨1, 0, 0⟩; let e2 : Vec3 := ⟨0, 1, 0⟩; let e3 : Vec3 := ⟨0, 0, 1⟩
    Vec3.dot (rot q e1) (rot q e1) = 1 ∧ Vec3.dot (rot q e1) (rot q e2) = 0 ∧ Vec3.dot (rot q e1) (rot q e3) = 0 ∧
    Vec3.dot (rot q e2) (rot q e1) = 0 ∧ Vec3.dot (rot q e2) (rot q e2) = 1 ∧ Vec3.dot (rot q e2) (rot q e3) = 0 ∧
    Vec3.dot (rot q e3) (rot q e1) = 0 ∧ Vec3.dot (rot q e3) (rot q e2) = 0 ∧ Vec3.dot (rot q e3) (rot q e3) = 1 ∧
    triple (rot q e1) (rot q e2) (rot q e3) = 1 := by
  intro e1 e2 e3
  simp only [rot_orthogonal q hq, rot_det_one q hq]
  simp [e1, e2, e3, Vec3.dot, triple, Vec3.cross]

/-- **rot_preserves_orientation**: a right-handed triple stays right-handed (and a left-handed one left-handed) -/
theorem rot_preserves_orientation (q : Quat) (hq : q.normSq ≠ 0) (a b c : Vec3) :
    (0 < triple a b c ↔ 0 < triple (rot q a) (rot q b) (rot q c)) ∧
    (triple a b c < 0 ↔ triple (rot q a) (rot q b) (rot q c) < 0) := by
  rw [rot_det_one q hq]; exact ⟨Iff.rfl, Iff.rfl⟩

theorem mirrorX_triple (a b c : Vec3) : triple (mirrorX a) (mirrorX b) (mirrorX c) = - triple a b c := by
  simp only [triple, mirrorX, Vec3.dot, Vec3.cross]; ring

/-- **a mirror image can never be produced by `rot`**: no quaternion of non-zero norm maps three
    non-coplanar vectors onto their mirror images. -/
theorem rot_ne_mirror (q : Quat) (hq : q.normSq ≠ 0) (a b c : Vec3) (hnc : triple a b c ≠ 0) :
    ¬ (rot q a = mirrorX a ∧ rot q b = mirrorX b ∧ rot q c = mirrorX c) := by
  rintro ⟨ha, hb, hc⟩
  have h := rot_det_one q hq a b c
  rw [ha, hb, hc, mirrorX_triple] at h
  apply hnc; linarith

/-- the identity quaternion is the identity map -/
theorem rot_identity (v : Vec3) : rot Quat.identity v = v := by
  simp [rot, Quat.identity, Quat.normSq, Quat.apply0, Vec3.smul]

theorem identity_normSq : Quat.identity.normSq = 1 := by
  simp [Quat.identity, Quat.normSq]

end Mofun
