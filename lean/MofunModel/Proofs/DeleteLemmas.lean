/- helper lemmas for C10 (deletion): re-indexing = rank, `deleteIdx` = the kept sub-list -/
import MofunModel.Model.Topo

namespace Mofun

/-- number of deleted indices below `x` -/
def rankBelow (idx : List Nat) (x : Nat) : Nat := (idx.filter (fun d => decide (d < x))).length

theorem rankBelow_cons (d : Nat) (rest : List Nat) (x : Nat) :
    rankBelow (d :: rest) x = (if d < x then 1 else 0) + rankBelow rest x := by
  unfold rankBelow
  by_cases h : d < x <;> simp [h]
  omega

theorem rankBelow_all (rest : List Nat) (x : Nat) (h : ∀ r ∈ rest, r < x) : rankBelow rest x = rest.length := by
  unfold rankBelow
  rw [List.filter_eq_self.mpr]
  intro r hr; simpa using h r hr

theorem rankBelow_le (idx : List Nat) (x : Nat) : rankBelow idx x ≤ idx.length := by
  unfold rankBelow; exact List.length_filter_le _ _

theorem reindex_desc (sd : List Nat) (h : sd.Pairwise (· > ·)) (x : Nat) (hx : x ∉ sd) :
    reindex sd x = x - rankBelow sd x := by
  induction sd generalizing x with
  | nil => simp [reindex, rankBelow]
  | cons d rest ih =>
    have hrest : rest.Pairwise (· > ·) := (List.pairwise_cons.mp h).2
    have hd : ∀ r ∈ rest, d > r := (List.pairwise_cons.mp h).1
    have hxd : x ≠ d := fun e => hx (by simp [e])
    have hxr : x ∉ rest := fun m => hx (by simp [m])
    have hfold : reindex (d :: rest) x = reindex rest (shiftAbove d x) := by simp [reindex]
    rw [hfold, rankBelow_cons]
    by_cases hgt : x > d
    · have hx1 : x - 1 ∉ rest := fun m => by have := hd _ m; omega
      have h1 : rankBelow rest (x - 1) = rest.length := rankBelow_all _ _ (fun r hr => by have := hd r hr; omega)
      have h2 : rankBelow rest x = rest.length := rankBelow_all _ _ (fun r hr => by have := hd r hr; omega)
      have hs : shiftAbove d x = x - 1 := by simp [shiftAbove, hgt]
      rw [hs, ih hrest (x - 1) hx1, h1, h2]
      simp [hgt]; omega
    · have hs : shiftAbove d x = x := by simp [shiftAbove, hgt]
      have hlt : ¬ d < x := by omega
      rw [hs, ih hrest x hxr]
      simp [hlt]

theorem insertDesc_perm (x : Nat) (l : List Nat) : (insertDesc x l).Perm (x :: l) := by
  induction l with
  | nil => simp [insertDesc]
  | cons y ys ih =>
    unfold insertDesc
    split
    · exact List.Perm.refl _
    · exact (List.Perm.cons y ih).trans (List.Perm.swap x y ys)

theorem sortDesc_perm (idx : List Nat) : (sortDesc idx).Perm idx := by
  induction idx with
  | nil => simp [sortDesc]
  | cons x xs ih =>
    have : sortDesc (x :: xs) = insertDesc x (sortDesc xs) := rfl
    rw [this]
    exact (insertDesc_perm x _).trans (List.Perm.cons x ih)

theorem insertDesc_pairwise (x : Nat) (l : List Nat) (h : l.Pairwise (· ≥ ·)) :
    (insertDesc x l).Pairwise (· ≥ ·) := by
  induction l with
  | nil => simp [insertDesc]
  | cons y ys ih =>
    have hy := List.pairwise_cons.mp h
    unfold insertDesc
    split
    · rename_i hge
      refine List.pairwise_cons.mpr ⟨?_, h⟩
      intro z hz
      rcases List.mem_cons.mp hz with rfl | hz
      · exact hge
      · have := hy.1 z hz; omega
    · rename_i hlt
      refine List.pairwise_cons.mpr ⟨?_, ih hy.2⟩
      intro z hz
      have hz' := (insertDesc_perm x ys).mem_iff.mp hz
      rcases List.mem_cons.mp hz' with rfl | hz'
      · omega
      · exact hy.1 z hz'

theorem sortDesc_ge (idx : List Nat) : (sortDesc idx).Pairwise (· ≥ ·) := by
  induction idx with
  | nil => simp [sortDesc]
  | cons x xs ih => exact insertDesc_pairwise x _ ih

theorem sortDesc_pairwise (idx : List Nat) (hnd : idx.Nodup) : (sortDesc idx).Pairwise (· > ·) := by
  have hnd' : (sortDesc idx).Nodup := (sortDesc_perm idx).nodup_iff.mpr hnd
  have := List.Pairwise.and (sortDesc_ge idx) hnd'
  refine this.imp ?_
  intro a b hab; have := hab.1; have := hab.2; omega

theorem rankBelow_perm {l₁ l₂ : List Nat} (h : l₁.Perm l₂) (x : Nat) : rankBelow l₁ x = rankBelow l₂ x := by
  unfold rankBelow; exact (h.filter _).length_eq

/-- the re-index loop of the code computes "index minus number of deleted indices below it" -/
theorem reindex_eq_rank' (idx : List Nat) (hnd : idx.Nodup) (x : Nat) (hx : x ∉ idx) :
    reindex (sortDesc idx) x = x - rankBelow idx x := by
  have hx' : x ∉ sortDesc idx := fun m => hx ((sortDesc_perm idx).mem_iff.mp m)
  rw [reindex_desc _ (sortDesc_pairwise idx hnd) x hx', rankBelow_perm (sortDesc_perm idx)]

/-! `deleteIdx` -/

/-- number of deleted indices in the window `[off, off + x)` -/
def cntWin (idx : List Nat) (off x : Nat) : Nat :=
  (idx.filter (fun d => decide (off ≤ d ∧ d < off + x))).length

theorem length_filter_cons {α} (p : α → Bool) (d : α) (ds : List α) :
    ((d :: ds).filter p).length = (if p d then 1 else 0) + (ds.filter p).length := by
  by_cases h : p d <;> simp [h]; omega

theorem cntWin_zero (idx : List Nat) (off : Nat) : cntWin idx off 0 = 0 := by
  unfold cntWin
  rw [List.filter_eq_nil_iff.mpr]
  · rfl
  · intro d _; simp

theorem cntWin_succ (idx : List Nat) (hnd : idx.Nodup) (off x : Nat) :
    cntWin idx off (x + 1) = (if off ∈ idx then 1 else 0) + cntWin idx (off + 1) x := by
  unfold cntWin
  induction idx with
  | nil => simp
  | cons d ds ih =>
    have hnd' := (List.nodup_cons.mp hnd)
    have ih' := ih hnd'.2
    rw [length_filter_cons, length_filter_cons, ih']
    by_cases h1 : d = off
    · subst h1
      have hno : ¬ d ∈ ds := hnd'.1
      have ha : (d ≤ d ∧ d < d + (x + 1)) := by omega
      have hb : ¬ (d + 1 ≤ d ∧ d < d + 1 + x) := by omega
      simp [hno, ha, hb]
    · have h1' : ¬ off = d := fun e => h1 e.symm
      have hmem : (off ∈ d :: ds) ↔ off ∈ ds := by simp [h1']
      by_cases h2 : off + 1 ≤ d ∧ d < off + 1 + x
      · have h3 : off ≤ d ∧ d < off + (x + 1) := by omega
        simp [h2, h3, hmem]; omega
      · have h3 : ¬ (off ≤ d ∧ d < off + (x + 1)) := by omega
        simp [h2, h3, hmem]

theorem deleteIdx_go_spec {α} (idx : List Nat) (hnd : idx.Nodup) (l : List α) (off x : Nat)
    (hlt : x < l.length) (hx : off + x ∉ idx) :
    ∃ p, p + cntWin idx off x = x ∧ (deleteIdx.go idx l off)[p]? = l[x]? := by
  induction l generalizing off x with
  | nil => simp at hlt
  | cons y ys ih =>
    cases x with
    | zero =>
      have hm : off ∉ idx := by simpa using hx
      exact ⟨0, by simp [cntWin_zero], by simp [deleteIdx.go, hm]⟩
    | succ x =>
      have hx' : (off + 1) + x ∉ idx := by rwa [show off + 1 + x = off + (x + 1) by omega]
      obtain ⟨p, hp, hget⟩ := ih (off + 1) x (by simpa using hlt) hx'
      rw [cntWin_succ idx hnd]
      by_cases hm : off ∈ idx
      · exact ⟨p, by simp [hm]; omega, by simp [deleteIdx.go, hm, hget]⟩
      · exact ⟨p + 1, by simp [hm]; omega, by simp [deleteIdx.go, hm, hget]⟩

theorem cntWin_zero_off (idx : List Nat) (x : Nat) : cntWin idx 0 x = rankBelow idx x := by
  unfold cntWin rankBelow; congr 1; apply List.filter_congr; intro d _; simp

/-- the atom that had index `x` (not deleted) sits at index `x - rank` afterwards -/
theorem deleteIdx_getElem? {α} (l : List α) (idx : List Nat) (hnd : idx.Nodup) (x : Nat) (hlt : x < l.length)
    (hx : x ∉ idx) : (deleteIdx l idx)[x - rankBelow idx x]? = l[x]? := by
  obtain ⟨p, hp, hget⟩ := deleteIdx_go_spec idx hnd l 0 x hlt (by simpa using hx)
  rw [cntWin_zero_off] at hp
  have : x - rankBelow idx x = p := by omega
  rw [this]; exact hget

end Mofun
