/-
  FindCompleteWrapped.lean — completeness of `find_pattern_in_structure` itself (`findW`, Model/Find.lean) for structures
  whose atoms are STORED anywhere (C02; used by C03/C08 too): the search looks at every atom through its image inside the
  cell, so the hypothesis "atoms inside the cell" of the window-completeness theorems is met by the wrapped structure.
  Guards `searchGuardsW` = `searchGuards` WITHOUT "atoms inside the cell" (orthorhombic: positive diagonal instead), plus
  "no stored atom within 1e-9 below a cell face" (there the face tolerance of the code decides the cell, `OffFaces`).
-/
import MofunModel.Proofs.FindSoundWrapped
import MofunModel.Proofs.FindCompleteTri
import MofunModel.Proofs.OccFind

namespace Mofun
open Mofun.C05

/-! ### guards WITHOUT "atoms inside the cell" -/

/-- the guards of the orthorhombic completeness theorem without the clause "every atom inside the cell": the diagonal
    is positive instead (it was implied by an atom inside) -/
def orthoGuardsW (inp : FindInput) : Bool :=
  inp.cell.isOrtho && inp.cell.diagPos && decide (0 ≤ inp.atol) &&
  decide (2 * inp.atol ≤ inp.cell.a.x) && decide (patMax inp ≤ (inp.cell.a.x - 2 * inp.atol) * (inp.cell.a.x - 2 * inp.atol)) &&
  decide (2 * inp.atol ≤ inp.cell.b.y) && decide (patMax inp ≤ (inp.cell.b.y - 2 * inp.atol) * (inp.cell.b.y - 2 * inp.atol)) &&
  decide (2 * inp.atol ≤ inp.cell.c.z) && decide (patMax inp ≤ (inp.cell.c.z - 2 * inp.atol) * (inp.cell.c.z - 2 * inp.atol)) &&
  decide (patMax inp ≤ inp.atol * inp.atol * 1000000000000000000) && decide (0 < inp.ppos.length) &&
  inp.pos.all (fun v => decide (OffFaces inp.cell v))

theorem ortho_frac (c : Mat3) (ho : c.isOrtho = true) (hp : c.diagPos = true) (p : Vec3) :
    c.det ≠ 0 ∧ (c.frac p).x = p.x / c.a.x ∧ (c.frac p).y = p.y / c.b.y ∧ (c.frac p).z = p.z / c.c.z ∧
    0 < c.a.x ∧ 0 < c.b.y ∧ 0 < c.c.z := by
  unfold Mat3.isOrtho at ho
  simp only [Bool.and_eq_true, beq_iff_eq] at ho
  obtain ⟨⟨⟨⟨⟨h1, h2⟩, h3⟩, h4⟩, h5⟩, h6⟩ := ho
  unfold Mat3.diagPos at hp
  simp only [Bool.and_eq_true, decide_eq_true_eq] at hp
  obtain ⟨⟨p1, p2⟩, p3⟩ := hp
  have hdet : c.det = c.a.x * c.b.y * c.c.z := by
    simp only [Mat3.det, Vec3.dot, Vec3.cross, h1, h2, h3, h4, h5, h6]; ring
  have hd : c.det ≠ 0 := by rw [hdet]; positivity
  refine ⟨hd, ?_, ?_, ?_, p1, p2, p3⟩
  · simp only [Mat3.frac, hdet, Vec3.dot, Vec3.cross, h1, h2, h3, h4, h5, h6]; field_simp; ring
  · simp only [Mat3.frac, hdet, Vec3.dot, Vec3.cross, h1, h2, h3, h4, h5, h6]; field_simp; ring
  · simp only [Mat3.frac, hdet, Vec3.dot, Vec3.cross, h1, h2, h3, h4, h5, h6]; field_simp; ring

theorem orthoGuardsW_spec (inp : FindInput) (h : orthoGuardsW inp = true) : OrthoGuards inp.wrapped := by
  unfold orthoGuardsW at h
  simp only [Bool.and_eq_true, decide_eq_true_eq] at h
  simp only [List.all_eq_true, decide_eq_true_eq] at h
  obtain ⟨⟨⟨⟨⟨⟨⟨⟨⟨⟨⟨h1, hdp⟩, h2⟩, h4⟩, h5⟩, h6⟩, h7⟩, h8⟩, h9⟩, h10⟩, h11⟩, hoff⟩ := h
  exact { ortho := h1, atol_nonneg := h2,
          inside := fun p hp => by
            obtain ⟨hd, fx, fy, fz, ax, by', cz⟩ := ortho_frac inp.cell h1 hdp p
            have hin := wrapped_inCell inp hd hoff p hp
            obtain ⟨⟨x0, x1⟩, ⟨y0, y1⟩, ⟨z0, z1⟩⟩ := hin
            rw [fx] at x0 x1; rw [fy] at y0 y1; rw [fz] at z0 z1
            show 0 ≤ p.x ∧ p.x < inp.cell.a.x ∧ 0 ≤ p.y ∧ p.y < inp.cell.b.y ∧ 0 ≤ p.z ∧ p.z < inp.cell.c.z
            refine ⟨?_, ?_, ?_, ?_, ?_, ?_⟩
            · exact (div_nonneg_iff.mp x0).elim (fun h => h.1) (fun h => absurd h.2 (not_le.mpr ax))
            · exact (div_lt_one ax).mp x1
            · exact (div_nonneg_iff.mp y0).elim (fun h => h.1) (fun h => absurd h.2 (not_le.mpr by'))
            · exact (div_lt_one by').mp y1
            · exact (div_nonneg_iff.mp z0).elim (fun h => h.1) (fun h => absurd h.2 (not_le.mpr cz))
            · exact (div_lt_one cz).mp z1,
          wx := ⟨h4, h5⟩, wy := ⟨h6, h7⟩, wz := ⟨h8, h9⟩, rel := h10, pat := h11 }


/-- the guards of the triclinic completeness theorem without the clause "every atom inside the cell" -/
def triGuardsW (inp : FindInput) : Bool :=
  let c := inp.cell
  !c.isOrtho && decide (0 ≤ inp.atol) && decide (c.det ≠ 0) &&
  widthB inp (Vec3.cross c.a c.b) (Vec3.dot c.c (Vec3.cross c.a c.b)) &&
  widthB inp (Vec3.cross c.a c.c) (Vec3.dot c.b (Vec3.cross c.a c.c)) &&
  widthB inp (Vec3.cross c.b c.c) (Vec3.dot c.a (Vec3.cross c.b c.c)) &&
  decide (patMax inp ≤ inp.atol * inp.atol * 1000000000000000000) && decide (0 < inp.ppos.length) &&
  inp.pos.all (fun v => decide (OffFaces inp.cell v))

theorem insidePlanes_of_ratio (nv x : Vec3) (W : Rat) (hW : W ≠ 0) (h0 : 0 ≤ Vec3.dot nv x / W)
    (h1 : Vec3.dot nv x / W < 1) : insidePlanes nv W x := by
  unfold insidePlanes sgn absRat
  rcases lt_or_gt_of_ne hW with hneg | hpos
  · have hd : Vec3.dot nv x ≤ 0 := by
      rcases div_nonneg_iff.mp h0 with h | h
      · exact absurd h.2 (not_le.mpr hneg)
      · exact h.1
    have hd1 : W < Vec3.dot nv x := (div_lt_one_of_neg hneg).mp h1
    simp only [hneg, if_true]
    constructor <;> linarith
  · have hd : 0 ≤ Vec3.dot nv x := by
      rcases div_nonneg_iff.mp h0 with h | h
      · exact h.1
      · exact absurd h.2 (not_le.mpr hpos)
    have hd1 : Vec3.dot nv x < W := (div_lt_one hpos).mp h1
    have hn : ¬ W < 0 := not_lt.mpr (le_of_lt hpos)
    simp only [hn, if_false]
    constructor <;> linarith

theorem triGuardsW_spec (inp : FindInput) (h : triGuardsW inp = true) : TriGuards inp.wrapped := by
  unfold triGuardsW at h
  simp only [Bool.and_eq_true, decide_eq_true_eq, Bool.not_eq_true', List.all_eq_true] at h
  obtain ⟨⟨⟨⟨⟨⟨⟨⟨h1, h2⟩, h3⟩, h5⟩, h6⟩, h7⟩, h8⟩, h9⟩, hoff⟩ := h
  exact { nonortho := h1, atol_nonneg := h2, vol := h3,
          inside := fun p hp => by
            obtain ⟨⟨x0, x1⟩, ⟨y0, y1⟩, ⟨z0, z1⟩⟩ := wrapped_inCell inp h3 hoff p hp
            have hc : inp.wrapped.cell = inp.cell := rfl
            rw [hc]
            set c := inp.cell with hcdef
            have hdet : c.det ≠ 0 := h3
            have eW0 : Vec3.dot c.c (Vec3.cross c.a c.b) = c.det := by
              simp only [Mat3.det, Vec3.dot, Vec3.cross]; ring
            have eW1 : Vec3.dot c.b (Vec3.cross c.a c.c) = -c.det := by
              simp only [Mat3.det, Vec3.dot, Vec3.cross]; ring
            have eW2 : Vec3.dot c.a (Vec3.cross c.b c.c) = c.det := by
              simp only [Mat3.det, Vec3.dot, Vec3.cross]; ring
            have r0 : Vec3.dot (Vec3.cross c.a c.b) p / c.det = (c.frac p).z := by
              simp only [Mat3.frac, Vec3.dot, Vec3.cross]; ring
            have r1 : Vec3.dot (Vec3.cross c.a c.c) p / (-c.det) = (c.frac p).y := by
              simp only [Mat3.frac, Vec3.dot, Vec3.cross]; field_simp; ring
            have r2 : Vec3.dot (Vec3.cross c.b c.c) p / c.det = (c.frac p).x := by
              simp only [Mat3.frac, Vec3.dot, Vec3.cross]; ring
            refine ⟨?_, ?_, ?_⟩
            · rw [eW0]; exact insidePlanes_of_ratio _ _ _ hdet (by rw [r0]; exact z0) (by rw [r0]; exact z1)
            · rw [eW1]; exact insidePlanes_of_ratio _ _ _ (neg_ne_zero.mpr hdet) (by rw [r1]; exact y0) (by rw [r1]; exact y1)
            · rw [eW2]; exact insidePlanes_of_ratio _ _ _ hdet (by rw [r2]; exact x0) (by rw [r2]; exact x1),
          w0 := h5, w1 := h6, w2 := h7, rel := h8, pat := h9 }


/-! ### completeness of `find_pattern_in_structure` (`findW`) — no "atoms inside the cell" hypothesis -/

def searchGuardsW (inp : FindInput) : Bool := orthoGuardsW inp || triGuardsW inp

/-- the windows are complete for the wrapped structure whatever cells the atoms are stored in -/
theorem windowComplete_wrapped (inp : FindInput) (hG : searchGuardsW inp = true) : WindowComplete inp.wrapped := by
  unfold searchGuardsW at hG
  rcases Bool.or_eq_true_iff.mp hG with h | h
  · exact windowComplete_ortho _ (orthoGuardsW_spec inp h)
  · exact windowComplete_tri _ (triGuardsW_spec inp h)

/-- the stored structure and its wrapped form differ by an integer lattice vector per atom -/
theorem latticeMoved_wrapped (inp : FindInput) :
    LatticeMoved inp inp.wrapped (fun i =>
      (-(inp.cell.cellsAway (inp.pos.getD i Vec3.zero)).1, -(inp.cell.cellsAway (inp.pos.getD i Vec3.zero)).2.1,
       -(inp.cell.cellsAway (inp.pos.getD i Vec3.zero)).2.2)) :=
  { cell := rfl, elems := rfl, pelems := rfl, ppos := rfl, len := wrapped_length inp
    pos := fun i hi => by rw [wrapped_getD inp i hi, intoCell_eq_add] }

/-- the occurrence keys of a structure do not depend on the cells its atoms are stored in -/
theorem occ_wrapped_iff (inp : FindInput) (epsSq : Rat) (key : List Nat) : Occ inp epsSq key ↔ Occ inp.wrapped epsSq key :=
  occ_latticeMoved_iff inp inp.wrapped _ (latticeMoved_wrapped inp) epsSq key

/-- **findW_complete_partial** (orthorhombic or triclinic; under `OracleAligns`): every occurrence among the images of the
    atoms inside the cell is reported by `find_pattern_in_structure` — the atoms may be STORED anywhere (guards: as for
    `find_complete_partial` but WITHOUT "atoms inside the cell"; instead no stored atom within 1e-9 below a cell face,
    where the face tolerance of the code decides the cell). -/
theorem findW_complete_partial (inp : FindInput) (ax1 : Nat) (oracle : Nat → Nat → Quat)
    (choose : Nat → List Nat → Nat) (hG : searchGuardsW inp = true) (g : Nat → Nat) (n : Nat → Int × Int × Int)
    (hocc : DistOccurrence inp.wrapped g n) (hor : OracleAligns inp.wrapped ax1 oracle (occTuple inp.wrapped g n)) :
    ∃ m ∈ findW inp ax1 oracle choose, m.key = occKey inp.ppos.length g := by
  have := find_complete_of_aligned inp.wrapped ax1 oracle choose (windowComplete_wrapped inp hG) g n hocc hor
  rcases List.mem_map.mp this with ⟨m, hm, hk⟩
  exact ⟨m, hm, hk⟩

/-- **findW_complete_rigid_partial**: every occurrence key of the structure AS STORED (`Occ inp`, atoms anywhere, each
    pattern atom within `ε ≤ atol/2` of an image of its atom) is reported. No inside-the-cell hypothesis. -/
theorem findW_complete_rigid_partial (inp : FindInput) (ax1 : Nat) (oracle : Nat → Nat → Quat)
    (choose : Nat → List Nat → Nat) (hG : searchGuardsW inp = true) (epsSq : Rat)
    (h4 : 4 * epsSq ≤ inp.atol * inp.atol) (key : List Nat) (hocc : Occ inp epsSq key)
    (hdistinct : ∀ g n, RigidOccurrence inp.wrapped epsSq g n → ∀ i j, j < i → i < inp.ppos.length → g j ≠ g i)
    (hor : ∀ g n, RigidOccurrence inp.wrapped epsSq g n → OracleAligns inp.wrapped ax1 oracle (occTuple inp.wrapped g n)) :
    key ∈ (findW inp ax1 oracle choose).map Match.key := by
  rcases (occ_wrapped_iff inp epsSq key).mp hocc with ⟨g, n, hr, hk⟩
  have hk' : key = occKey inp.ppos.length g := hk
  rw [hk']
  exact find_complete_of_aligned inp.wrapped ax1 oracle choose (windowComplete_wrapped inp hG) g n
    (rigid_implies_dist inp.wrapped epsSq h4 g n hr (hdistinct g n hr)) (hor g n hr)

end Mofun
