/-
  OccCount.lean — the COUNT form of the supercell relation (C03 (f)):
  under `countGuards` (every perpendicular width > 2·(diameter + 2·atol), 2ε ≤ atol, pattern atoms > 2ε apart)

      #{keys of Occ(replicate S a b c)} = a·b·c · #{keys of Occ(S)}.

  The map  K' ↦ (K' folded with `% N`,  image number of the atom of K' that folds onto the first atom of the folded key)
  is a bijection from the keys of the supercell onto (keys of the unit cell) × (the a·b·c images):
    into     — `rigid_replicate_fold_explicit`;
    one-one  — two supercell occurrences with the same fold and the same anchor atom consist of the same atoms, because
               an atom group has a single realisation (`occ_relative_image_unique`);
    onto     — `rigid_replicate_lift_explicit` with the first atom placed so that the anchor lands in the wanted image.
-/
import MofunModel.Proofs.OccCountGeom
import MofunModel.Proofs.OccReplicate
import Mathlib.Data.Set.Card
import Mathlib.Order.Interval.Finset.Nat
import Mathlib.Tactic.LinearCombination

namespace Mofun

/-! ### keys as lists -/

theorem occKey_perm (k : Nat) (g : Nat → Nat) : (occKey k g).Perm ((List.range k).map g) := sortNat_perm _

theorem mem_occKey (k : Nat) (g : Nat → Nat) (x : Nat) : x ∈ occKey k g ↔ ∃ j, j < k ∧ g j = x := by
  rw [(occKey_perm k g).mem_iff, List.mem_map]
  constructor
  · rintro ⟨j, hj, e⟩; exact ⟨j, List.mem_range.mp hj, e⟩
  · rintro ⟨j, hj, e⟩; exact ⟨j, List.mem_range.mpr hj, e⟩

theorem occKey_length (k : Nat) (g : Nat → Nat) : (occKey k g).length = k := by
  rw [(occKey_perm k g).length_eq]; simp

theorem occKey_head_mem (k : Nat) (g : Nat → Nat) (hk : 0 < k) : ∃ j, j < k ∧ g j = (occKey k g).headD 0 := by
  have hlen := occKey_length k g
  cases hK : occKey k g with
  | nil => rw [hK] at hlen; simp at hlen; omega
  | cons x xs =>
    have : x ∈ occKey k g := by rw [hK]; simp
    simpa using (mem_occKey k g x).mp this

theorem occKey_congr (k : Nat) (g g' : Nat → Nat) (h : ∀ j, j < k → g j = g' j) : occKey k g = occKey k g' := by
  unfold occKey
  congr 1
  apply List.map_congr_left
  intro j hj; exact h j (List.mem_range.mp hj)

/-- two injective slot maps with the same set of atoms have the same key -/
theorem occKey_eq_of_same_atoms (k : Nat) (g g' : Nat → Nat)
    (hinj : ∀ i j, i < k → j < k → g i = g j → i = j) (hinj' : ∀ i j, i < k → j < k → g' i = g' j → i = j)
    (hsub : ∀ i, i < k → ∃ j, j < k ∧ g' j = g i) (hsub' : ∀ i, i < k → ∃ j, j < k ∧ g j = g' i) :
    occKey k g = occKey k g' := by
  unfold occKey
  apply sortNat_perm_eq
  have nd : ((List.range k).map g).Nodup :=
    List.Nodup.map_on (fun x hx y hy e => hinj x y (List.mem_range.mp hx) (List.mem_range.mp hy) e) List.nodup_range
  have nd' : ((List.range k).map g').Nodup :=
    List.Nodup.map_on (fun x hx y hy e => hinj' x y (List.mem_range.mp hx) (List.mem_range.mp hy) e) List.nodup_range
  apply (List.perm_ext_iff_of_nodup nd nd').mpr
  intro x
  simp only [List.mem_map, List.mem_range]
  constructor
  · rintro ⟨i, hi, e⟩
    rcases hsub i hi with ⟨j, hj, e'⟩
    exact ⟨j, hj, by rw [e', e]⟩
  · rintro ⟨i, hi, e⟩
    rcases hsub' i hi with ⟨j, hj, e'⟩
    exact ⟨j, hj, by rw [e', e]⟩

/-! ### fold key and anchor -/

/-- the unit-cell key of a supercell key -/
def foldKey (N : Nat) (K' : List Nat) : List Nat := sortNat (K'.map (· % N))

/-- the atom of `K'` that folds onto the first atom of the folded key -/
def anchorOf (N : Nat) (K' : List Nat) : Nat :=
  (K'.find? (fun x => x % N == (foldKey N K').headD 0)).getD 0

theorem foldKey_occKey (N k : Nat) (g' : Nat → Nat) : foldKey N (occKey k g') = occKey k (fun j => g' j % N) := by
  unfold foldKey occKey
  rw [sortNat_map_sortNat, List.map_map]
  rfl

/-- with pairwise different residues, the anchor is the slot whose residue is the head of the folded key -/
theorem anchorOf_occKey (N k : Nat) (g' : Nat → Nat) (hk : 0 < k)
    (hinj : ∀ i j, i < k → j < k → g' i % N = g' j % N → i = j) :
    ∃ j, j < k ∧ g' j % N = (foldKey N (occKey k g')).headD 0 ∧ anchorOf N (occKey k g') = g' j := by
  have hfold := foldKey_occKey N k g'
  rcases occKey_head_mem k (fun j => g' j % N) hk with ⟨j, hj, hjh⟩
  rw [← hfold] at hjh
  refine ⟨j, hj, hjh, ?_⟩
  unfold anchorOf
  cases hf : (occKey k g').find? (fun x => x % N == (foldKey N (occKey k g')).headD 0) with
  | none =>
    have hnone := List.find?_eq_none.mp hf (g' j) ((mem_occKey k g' _).mpr ⟨j, hj, rfl⟩)
    simp [hjh] at hnone
  | some x =>
    have hx := List.find?_some hf
    have hmem := List.mem_of_find?_eq_some hf
    rcases (mem_occKey k g' x).mp hmem with ⟨i, hi, e⟩
    have hres : g' i % N = g' j % N := by
      rw [e, hjh]; simpa using hx
    have := hinj i j hi hj hres
    simp only [Option.getD_some]
    rw [← e, this]

/-! ### supercell occurrences -/

theorem replicate_ppos_length (inp : FindInput) (a b c : Nat) : (inp.replicate a b c).ppos.length = inp.ppos.length := rfl

/-- index bookkeeping of a supercell occurrence -/
theorem supercell_index (inp : FindInput) (a b c : Nat) (epsSq : Rat) (g' : Nat → Nat) (n' : Nat → Int × Int × Int)
    (h : RigidOccurrence (inp.replicate a b c) epsSq g' n') (j : Nat) (hj : j < inp.ppos.length) :
    0 < inp.pos.length ∧ g' j / inp.pos.length < a * b * c ∧ g' j % inp.pos.length < inp.pos.length := by
  have hlt := h.idx_lt j hj
  rw [replicate_pos_length] at hlt
  have hN : 0 < inp.pos.length := by
    rcases Nat.eq_zero_or_pos inp.pos.length with h0 | h0
    · rw [h0] at hlt; simp at hlt
    · exact h0
  exact ⟨hN, Nat.div_lt_of_lt_mul (by rw [Nat.mul_comm]; exact hlt), Nat.mod_lt _ hN⟩

/-- the atoms of a supercell occurrence fold onto pairwise different unit-cell atoms -/
theorem supercell_residues_distinct (inp : FindInput) (a b c : Nat) (epsSq : Rat) (hG : CountGuards inp epsSq)
    (g' : Nat → Nat) (n' : Nat → Int × Int × Int) (h : RigidOccurrence (inp.replicate a b c) epsSq g' n')
    (i j : Nat) (hi : i < inp.ppos.length) (hj : j < inp.ppos.length)
    (e : g' i % inp.pos.length = g' j % inp.pos.length) : i = j :=
  occ_atoms_distinct inp epsSq hG _ _ (rigid_replicate_fold_explicit inp a b c hG.len epsSq g' n' h) i j hi hj e

theorem int_mul_small (q : Int) (a r1 r2 : Nat) (h : q * (a : Int) = (r2 : Int) - (r1 : Int)) (h1 : r1 < a) (h2 : r2 < a) :
    r1 = r2 := by
  have hq : q = 0 := by
    by_contra hne
    rcases lt_or_gt_of_ne hne with hneg | hpos
    · have : q * (a : Int) ≤ -1 * (a : Int) := Int.mul_le_mul_of_nonneg_right (by omega) (by omega)
      omega
    · have : 1 * (a : Int) ≤ q * (a : Int) := Int.mul_le_mul_of_nonneg_right (by omega) (by omega)
      omega
  rw [hq] at h
  omega

/-- **two supercell occurrences that share a supercell atom agree on every atom with a common fold**: if
    `g₁ a₁ = g₂ a₂` and `g₁ b₁`, `g₂ b₂` fold onto the same unit-cell atom, then `g₁ b₁ = g₂ b₂` -/
theorem supercell_atoms_agree (inp : FindInput) (a b c : Nat) (epsSq : Rat) (hG : CountGuards inp epsSq)
    (g1 g2 : Nat → Nat) (n1 n2 : Nat → Int × Int × Int)
    (h1 : RigidOccurrence (inp.replicate a b c) epsSq g1 n1) (h2 : RigidOccurrence (inp.replicate a b c) epsSq g2 n2)
    (a1 a2 b1 b2 : Nat) (ha1 : a1 < inp.ppos.length) (ha2 : a2 < inp.ppos.length) (hb1 : b1 < inp.ppos.length)
    (hb2 : b2 < inp.ppos.length) (hanchor : g1 a1 = g2 a2)
    (hres : g1 b1 % inp.pos.length = g2 b2 % inp.pos.length) : g1 b1 = g2 b2 := by
  have f1 := rigid_replicate_fold_explicit inp a b c hG.len epsSq g1 n1 h1
  have f2 := rigid_replicate_fold_explicit inp a b c hG.len epsSq g2 n2 h2
  have hrel := occ_relative_image_unique inp epsSq hG _ _ _ _ f1 f2 a1 b1 a2 b2 ha1 hb1 ha2 hb2
    (by simp only [hanchor]) hres
  have i1 := supercell_index inp a b c epsSq g1 n1 h1 b1 hb1
  have i2 := supercell_index inp a b c epsSq g2 n2 h2 b2 hb2
  have d1 := decode_lt a b c _ i1.2.1
  have d2 := decode_lt a b c _ i2.2.1
  simp only [foldImg, hanchor] at hrel
  obtain ⟨q1, q2, q3⟩ := hrel
  have ex := int_mul_small ((n1 b1).1 - (n1 a1).1 - ((n2 b2).1 - (n2 a2).1)) a _ _
    (by linear_combination q1) d1.1 d2.1
  have ey := int_mul_small ((n1 b1).2.1 - (n1 a1).2.1 - ((n2 b2).2.1 - (n2 a2).2.1)) b _ _
    (by linear_combination q2) d1.2.1 d2.2.1
  have ez := int_mul_small ((n1 b1).2.2 - (n1 a1).2.2 - ((n2 b2).2.2 - (n2 a2).2.2)) c _ _
    (by linear_combination q3) d1.2.2 d2.2.2
  have hdec : decodeImg b c (g1 b1 / inp.pos.length) = decodeImg b c (g2 b2 / inp.pos.length) := by
    apply Prod.ext
    · exact ex
    · apply Prod.ext
      · exact ey
      · exact ez
  have ht := decode_inj b c _ _ hdec
  have e1 := Nat.div_add_mod (g1 b1) inp.pos.length
  have e2 := Nat.div_add_mod (g2 b2) inp.pos.length
  rw [ht, hres] at e1
  omega

/-! ### the bijection -/

/-- the occurrence keys of a structure, as a set -/
def occKeys (inp : FindInput) (epsSq : Rat) : Set (List Nat) := {K | Occ inp epsSq K}

/-- the images of an a×b×c supercell -/
def imgBox (a b c : Nat) : Set (Nat × Nat × Nat) := {m | m.1 < a ∧ m.2.1 < b ∧ m.2.2 < c}

/-- supercell key ↦ (unit-cell key, image of the anchor atom) -/
def countMap (b c N : Nat) (K' : List Nat) : List Nat × (Nat × Nat × Nat) :=
  (foldKey N K', decodeImg b c (anchorOf N K' / N))

theorem countMap_mapsTo (inp : FindInput) (a b c : Nat) (epsSq : Rat) (hG : CountGuards inp epsSq) :
    Set.MapsTo (countMap b c inp.pos.length) (occKeys (inp.replicate a b c) epsSq) (occKeys inp epsSq ×ˢ imgBox a b c) := by
  rintro K' ⟨g', n', h, hK⟩
  rw [replicate_ppos_length] at hK
  have hres := supercell_residues_distinct inp a b c epsSq hG g' n' h
  rcases anchorOf_occKey inp.pos.length inp.ppos.length g' hG.pat hres with ⟨j, hj, _, hanch⟩
  have hidx := supercell_index inp a b c epsSq g' n' h j hj
  constructor
  · show Occ inp epsSq (foldKey inp.pos.length K')
    rw [hK, foldKey_occKey]
    exact ⟨_, _, rigid_replicate_fold_explicit inp a b c hG.len epsSq g' n' h, rfl⟩
  · show decodeImg b c (anchorOf inp.pos.length K' / inp.pos.length) ∈ imgBox a b c
    rw [hK, hanch]
    exact decode_lt a b c _ hidx.2.1

theorem countMap_injOn (inp : FindInput) (a b c : Nat) (epsSq : Rat) (hG : CountGuards inp epsSq) :
    Set.InjOn (countMap b c inp.pos.length) (occKeys (inp.replicate a b c) epsSq) := by
  rintro K1 ⟨g1, n1, h1, hK1⟩ K2 ⟨g2, n2, h2, hK2⟩ heq
  rw [replicate_ppos_length] at hK1 hK2
  have hfold : foldKey inp.pos.length K1 = foldKey inp.pos.length K2 := congrArg Prod.fst heq
  have hdec : decodeImg b c (anchorOf inp.pos.length K1 / inp.pos.length)
      = decodeImg b c (anchorOf inp.pos.length K2 / inp.pos.length) := congrArg Prod.snd heq
  have hres1 := supercell_residues_distinct inp a b c epsSq hG g1 n1 h1
  have hres2 := supercell_residues_distinct inp a b c epsSq hG g2 n2 h2
  rcases anchorOf_occKey inp.pos.length inp.ppos.length g1 hG.pat hres1 with ⟨j1, hj1, hhead1, hanch1⟩
  rcases anchorOf_occKey inp.pos.length inp.ppos.length g2 hG.pat hres2 with ⟨j2, hj2, hhead2, hanch2⟩
  rw [hK1, hK2] at hfold hdec
  rw [hanch1, hanch2] at hdec
  -- the two anchors are the same supercell atom
  have hanchor : g1 j1 = g2 j2 := by
    have ht := decode_inj b c _ _ hdec
    have hr : g1 j1 % inp.pos.length = g2 j2 % inp.pos.length := by rw [hhead1, hhead2, hfold]
    have e1 := Nat.div_add_mod (g1 j1) inp.pos.length
    have e2 := Nat.div_add_mod (g2 j2) inp.pos.length
    rw [ht, hr] at e1
    omega
  have hfold' : occKey inp.ppos.length (fun j => g1 j % inp.pos.length)
      = occKey inp.ppos.length (fun j => g2 j % inp.pos.length) := by
    rw [← foldKey_occKey, ← foldKey_occKey]; exact hfold
  rw [hK1, hK2]
  apply occKey_eq_of_same_atoms
  · intro i j hi hj e; exact hres1 i j hi hj (by rw [e])
  · intro i j hi hj e; exact hres2 i j hi hj (by rw [e])
  · intro i hi
    have hm : g1 i % inp.pos.length ∈ occKey inp.ppos.length (fun j => g2 j % inp.pos.length) := by
      rw [← hfold']; exact (mem_occKey _ _ _).mpr ⟨i, hi, rfl⟩
    rcases (mem_occKey _ _ _).mp hm with ⟨j, hj, e⟩
    exact ⟨j, hj, (supercell_atoms_agree inp a b c epsSq hG g1 g2 n1 n2 h1 h2 j1 j2 i j hj1 hj2 hi hj hanchor e.symm).symm⟩
  · intro i hi
    have hm : g2 i % inp.pos.length ∈ occKey inp.ppos.length (fun j => g1 j % inp.pos.length) := by
      rw [hfold']; exact (mem_occKey _ _ _).mpr ⟨i, hi, rfl⟩
    rcases (mem_occKey _ _ _).mp hm with ⟨j, hj, e⟩
    exact ⟨j, hj, supercell_atoms_agree inp a b c epsSq hG g1 g2 n1 n2 h1 h2 j1 j2 j i hj1 hj2 hj hi hanchor e⟩

/-- first-atom image that puts the atom in slot `j` (unit-cell image `nj`) into the supercell image `m` -/
def anchorShift (a b c : Nat) (nj : Int × Int × Int) (m : Nat × Nat × Nat) : Nat × Nat × Nat :=
  ((((m.1 : Int) - nj.1) % (a : Int)).toNat, (((m.2.1 : Int) - nj.2.1) % (b : Int)).toNat,
   (((m.2.2 : Int) - nj.2.2) % (c : Int)).toNat)

theorem emod_shift (x : Int) (y a : Nat) (hy : y < a) :
    (((y : Int) - x) % (a : Int)).toNat < a ∧
    ((x + ((((y : Int) - x) % (a : Int)).toNat : Nat)) % (a : Int)).toNat = y := by
  have ha : (a : Int) ≠ 0 := by omega
  have hnn : 0 ≤ ((y : Int) - x) % (a : Int) := Int.emod_nonneg _ ha
  have hlt : ((y : Int) - x) % (a : Int) < (a : Int) := Int.emod_lt_of_pos _ (by omega)
  have ecast : (((((y : Int) - x) % (a : Int)).toNat : Nat) : Int) = ((y : Int) - x) % (a : Int) := Int.toNat_of_nonneg hnn
  constructor
  · have : (((((y : Int) - x) % (a : Int)).toNat : Nat) : Int) < (a : Int) := by rw [ecast]; exact hlt
    exact_mod_cast this
  · rw [ecast, Int.add_emod_emod]
    have : x + ((y : Int) - x) = (y : Int) := by ring
    rw [this, Int.emod_eq_of_lt (by omega) (by omega)]
    simp

theorem countMap_surjOn (inp : FindInput) (a b c : Nat) (epsSq : Rat) (hG : CountGuards inp epsSq) :
    Set.SurjOn (countMap b c inp.pos.length) (occKeys (inp.replicate a b c) epsSq) (occKeys inp epsSq ×ˢ imgBox a b c) := by
  rintro ⟨K, m⟩ ⟨⟨g, n, h, hK⟩, ⟨hm1, hm2, hm3⟩⟩
  simp only at hK hm1 hm2 hm3
  -- the slot whose atom is the first atom of the key
  rcases occKey_head_mem inp.ppos.length g hG.pat with ⟨j, hj, hjh⟩
  let m0 := anchorShift a b c (n j) m
  have sx := emod_shift (n j).1 m.1 a hm1
  have sy := emod_shift (n j).2.1 m.2.1 b hm2
  have sz := emod_shift (n j).2.2 m.2.2 c hm3
  have hl := rigid_replicate_lift_explicit inp a b c hG.len epsSq g n h m0 sx.1 sy.1 sz.1
  obtain ⟨hocc, hfoldg, _⟩ := hl
  let g' := liftIdx inp a b c g n m0
  have hgdist : ∀ i i', i < inp.ppos.length → i' < inp.ppos.length → g i = g i' → i = i' :=
    fun i i' hi hi' e => occ_atoms_distinct inp epsSq hG g n h i i' hi hi' e
  have hres : ∀ i i', i < inp.ppos.length → i' < inp.ppos.length →
      g' i % inp.pos.length = g' i' % inp.pos.length → i = i' := by
    intro i i' hi hi' e
    rw [hfoldg i hi, hfoldg i' hi'] at e
    exact hgdist i i' hi hi' e
  have hfoldK : foldKey inp.pos.length (occKey inp.ppos.length g') = K := by
    rw [foldKey_occKey, hK]
    exact occKey_congr _ _ _ (fun i hi => hfoldg i hi)
  refine ⟨occKey inp.ppos.length g', ⟨g', _, hocc, by rw [replicate_ppos_length]⟩, ?_⟩
  rcases anchorOf_occKey inp.pos.length inp.ppos.length g' hG.pat hres with ⟨j', hj', hhead, hanch⟩
  -- the anchor slot is j
  have hjj : j' = j := by
    apply hgdist j' j hj' hj
    rw [← hfoldg j' hj', hhead, hfoldK, hK, hjh]
  subst hjj
  have hgj := h.idx_lt j' hj
  have hdiv : g' j' / inp.pos.length = encodeImg b c (liftRem a b c n m0 j') := by
    show (encodeImg b c (liftRem a b c n m0 j') * inp.pos.length + g j') / inp.pos.length = _
    rw [Nat.add_comm, Nat.add_mul_div_right _ _ (by omega), Nat.div_eq_of_lt hgj]; omega
  have hrem : liftRem a b c n m0 j' = m := by
    simp only [liftRem, m0, anchorShift]
    rw [sx.2, sy.2, sz.2]
  unfold countMap
  rw [hfoldK, hanch, hdiv, hrem, (decode_encode a b c m hm1 hm2 hm3).2]

/-- **the count map is a bijection** from the occurrence keys of the supercell onto
    (occurrence keys of the unit cell) × (images of the supercell) -/
theorem countMap_bijOn (inp : FindInput) (a b c : Nat) (epsSq : Rat) (hG : CountGuards inp epsSq) :
    Set.BijOn (countMap b c inp.pos.length) (occKeys (inp.replicate a b c) epsSq) (occKeys inp epsSq ×ˢ imgBox a b c) :=
  Set.BijOn.mk (countMap_mapsTo inp a b c epsSq hG) (countMap_injOn inp a b c epsSq hG)
    (countMap_surjOn inp a b c epsSq hG)

theorem imgBox_ncard (a b c : Nat) : (imgBox a b c).ncard = a * b * c := by
  have : imgBox a b c = Set.Iio a ×ˢ (Set.Iio b ×ˢ Set.Iio c) := by
    ext m; simp [imgBox, Set.mem_prod]
  rw [this, Set.ncard_prod, Set.ncard_prod]
  have hI : ∀ x : Nat, (Set.Iio x).ncard = x := fun x => by
    rw [Set.ncard_eq_toFinset_card', Set.toFinset_Iio, Nat.card_Iio]
  rw [hI, hI, hI, Nat.mul_assoc]

/-- **occ_replicate, count form.** -/
theorem occKeys_replicate_ncard (inp : FindInput) (a b c : Nat) (epsSq : Rat) (hG : CountGuards inp epsSq) :
    (occKeys (inp.replicate a b c) epsSq).ncard = a * b * c * (occKeys inp epsSq).ncard := by
  have hb := countMap_bijOn inp a b c epsSq hG
  rw [← hb.injOn.ncard_image, hb.image_eq, Set.ncard_prod, imgBox_ncard, Nat.mul_comm]

/-- the occurrence keys form a FINITE set (so that `ncard` really counts them) -/
theorem occKeys_finite (inp : FindInput) (epsSq : Rat) : (occKeys inp epsSq).Finite := by
  let F : (Fin inp.ppos.length → Fin inp.pos.length) → List Nat := fun f =>
    occKey inp.ppos.length (fun j => if h : j < inp.ppos.length then (f ⟨j, h⟩).val else 0)
  apply (Set.finite_range F).subset
  rintro K ⟨g, n, h, hK⟩
  refine ⟨fun j => ⟨g j.val, h.idx_lt j.val j.isLt⟩, ?_⟩
  rw [hK]
  apply occKey_congr
  intro j hj
  simp [hj]

end Mofun
