/-
  ReplaceTermsDelete.lean — C06, part 4: the final bulk delete of `replace_pattern_in_structure`, on signatures
  (uses the C10 theorems: `delete_terms_eq`, `reindex_eq_rank`, `deleteIdx_getElem?`), the removal list, and
  that the re-indexing is strictly increasing on the surviving atoms.  Namespace `Mofun.C06`.
-/
import MofunModel.Proofs.ReplaceTermsFold

namespace Mofun.C06
open Mofun

/-! ### the removal list -/

theorem dedup_mem {α} [DecidableEq α] (l : List α) (x : α) : x ∈ dedup l ↔ x ∈ l := by
  induction l with
  | nil => simp [dedup]
  | cons y ys ih =>
    simp only [dedup, List.mem_cons, List.mem_filter, ih, decide_eq_true_eq]
    constructor
    · rintro (h | ⟨h, _⟩)
      · exact Or.inl h
      · exact Or.inr h
    · rintro (h | h)
      · exact Or.inl h
      · by_cases e : x = y
        · exact Or.inl e
        · exact Or.inr ⟨h, e⟩

theorem dedup_nodup {α} [DecidableEq α] (l : List α) : (dedup l).Nodup := by
  induction l with
  | nil => simp [dedup]
  | cons y ys ih =>
    simp only [dedup]
    refine List.nodup_cons.mpr ⟨?_, List.Nodup.sublist List.filter_sublist ih⟩
    intro h
    have := (List.mem_filter.mp h).2
    simp at this

theorem tdOf_nodup (pairs : List (Nat × Nat)) (ra : Bool) (m : PlacedMatch) : (tdOf pairs ra m).Nodup :=
  List.Nodup.sublist List.filter_sublist (dedup_nodup _)

/-- an atom is on a match's removal list iff it is matched and not retained through the index map -/
theorem tdOf_mem (pairs : List (Nat × Nat)) (ra : Bool) (m : PlacedMatch) (i : Nat) :
    i ∈ tdOf pairs ra m ↔ i ∈ m.idx ∧ i ∉ (matchMap pairs ra m).map (·.2) := by
  simp only [tdOf, toDeleteOf, List.mem_filter, dedup_mem]
  constructor
  · rintro ⟨h1, h2⟩; exact ⟨h1, by simpa using h2⟩
  · rintro ⟨h1, h2⟩; exact ⟨h1, by simpa using h2⟩

theorem delStep_mem (pairs : List (Nat × Nat)) (ra : Bool) (d : List Nat) (m : PlacedMatch) (i : Nat) :
    i ∈ delStep pairs ra d m ↔ i ∈ d ∨ i ∈ tdOf pairs ra m := by
  simp only [delStep, List.mem_append, List.mem_filter]
  constructor
  · rintro (h | ⟨h, _⟩)
    · exact Or.inl h
    · exact Or.inr h
  · rintro (h | h)
    · exact Or.inl h
    · by_cases e : i ∈ d
      · exact Or.inl e
      · exact Or.inr ⟨h, by simpa using e⟩

theorem delStep_nodup (pairs : List (Nat × Nat)) (ra : Bool) (d : List Nat) (m : PlacedMatch) (hd : d.Nodup) :
    (delStep pairs ra d m).Nodup := by
  unfold delStep
  refine List.nodup_append.mpr ⟨hd, List.Nodup.sublist List.filter_sublist (tdOf_nodup pairs ra m), ?_⟩
  intro a ha b hb e
  subst e
  have := (List.mem_filter.mp hb).2
  simp [ha] at this

theorem foldl_delStep_mem (pairs : List (Nat × Nat)) (ra : Bool) (ms : List PlacedMatch) (d : List Nat) (i : Nat) :
    i ∈ ms.foldl (delStep pairs ra) d ↔ i ∈ d ∨ ∃ m ∈ ms, i ∈ tdOf pairs ra m := by
  induction ms generalizing d with
  | nil => simp
  | cons m ms ih =>
    rw [List.foldl_cons, ih, delStep_mem]
    constructor
    · rintro ((h | h) | ⟨m', hm', h⟩)
      · exact Or.inl h
      · exact Or.inr ⟨m, by simp, h⟩
      · exact Or.inr ⟨m', by simp [hm'], h⟩
    · rintro (h | ⟨m', hm', h⟩)
      · exact Or.inl (Or.inl h)
      · rcases List.mem_cons.mp hm' with e | e
        · subst e; exact Or.inl (Or.inr h)
        · exact Or.inr ⟨m', e, h⟩

theorem foldl_delStep_nodup (pairs : List (Nat × Nat)) (ra : Bool) (ms : List PlacedMatch) (d : List Nat)
    (hd : d.Nodup) : (ms.foldl (delStep pairs ra) d).Nodup := by
  induction ms generalizing d with
  | nil => exact hd
  | cons m ms ih => exact ih _ (delStep_nodup pairs ra d m hd)

/-- the removal list never repeats an atom -/
theorem delOf_nodup (pairs : List (Nat × Nat)) (ra : Bool) (ms : List PlacedMatch) : (delOf pairs ra ms).Nodup :=
  foldl_delStep_nodup pairs ra ms [] List.nodup_nil

/-- an atom is removed iff some replaced match lists it and does not retain it -/
theorem delOf_mem (pairs : List (Nat × Nat)) (ra : Bool) (ms : List PlacedMatch) (i : Nat) :
    i ∈ delOf pairs ra ms ↔ ∃ m ∈ ms, i ∈ m.idx ∧ i ∉ (matchMap pairs ra m).map (·.2) := by
  unfold delOf
  rw [foldl_delStep_mem]
  simp only [List.not_mem_nil, false_or, tdOf_mem]

/-! ### the re-indexing is strictly increasing on surviving atoms -/

theorem cntWin_le (idx : List Nat) (hnd : idx.Nodup) (off x : Nat) : cntWin idx off x ≤ x := by
  induction x generalizing off with
  | zero => rw [cntWin_zero]; exact Nat.le_refl 0
  | succ x ih =>
    rw [cntWin_succ idx hnd]
    have := ih (off + 1)
    split <;> omega

theorem rankBelow_le_self (idx : List Nat) (hnd : idx.Nodup) (x : Nat) : rankBelow idx x ≤ x := by
  rw [← cntWin_zero_off]; exact cntWin_le idx hnd 0 x

theorem rankBelow_split (idx : List Nat) (x k : Nat) :
    rankBelow idx (x + k) = rankBelow idx x + cntWin idx x k := by
  unfold rankBelow cntWin
  induction idx with
  | nil => rfl
  | cons d ds ih =>
    rw [length_filter_cons, length_filter_cons, length_filter_cons, ih]
    by_cases h1 : d < x
    · have h2 : d < x + k := by omega
      have h3 : ¬ (x ≤ d ∧ d < x + k) := by omega
      rw [decide_eq_true h1, decide_eq_true h2, decide_eq_false h3]; simp; omega
    · by_cases h2 : d < x + k
      · have h3 : x ≤ d ∧ d < x + k := by omega
        rw [decide_eq_false h1, decide_eq_true h2, decide_eq_true h3]; simp; omega
      · have h3 : ¬ (x ≤ d ∧ d < x + k) := by omega
        rw [decide_eq_false h1, decide_eq_false h2, decide_eq_false h3]; simp

/-- **strictly increasing**: a surviving atom keeps its place relative to every later atom -/
theorem newIndex_lt (idx : List Nat) (hnd : idx.Nodup) (x y : Nat) (hx : x ∉ idx) (hxy : x < y) :
    newIndex idx x < newIndex idx y := by
  obtain ⟨k, rfl⟩ : ∃ k, y = x + (k + 1) := ⟨y - x - 1, by omega⟩
  unfold newIndex
  rw [rankBelow_split, cntWin_succ idx hnd]
  have h1 := cntWin_le idx hnd (x + 1) k
  have h2 := rankBelow_le_self idx hnd x
  simp only [hx, if_false]
  omega

theorem newIndex_inj (idx : List Nat) (hnd : idx.Nodup) (x y : Nat) (hx : x ∉ idx) (hy : y ∉ idx)
    (h : newIndex idx x = newIndex idx y) : x = y := by
  rcases Nat.lt_trichotomy x y with hlt | heq | hgt
  · have := newIndex_lt idx hnd x y hx hlt; omega
  · exact heq
  · have := newIndex_lt idx hnd y x hy hgt; omega

/-- a map that is injective on the members of two lists is injective on the lists -/
theorem map_inj_on {α β} (f : α → β) (P : α → Prop) (hf : ∀ a b, P a → P b → f a = f b → a = b)
    (l₁ l₂ : List α) (h₁ : ∀ a ∈ l₁, P a) (h₂ : ∀ a ∈ l₂, P a) (h : l₁.map f = l₂.map f) : l₁ = l₂ := by
  induction l₁ generalizing l₂ with
  | nil =>
    cases l₂ with
    | nil => rfl
    | cons b l₂ => simp at h
  | cons a l₁ ih =>
    cases l₂ with
    | nil => simp at h
    | cons b l₂ =>
      simp only [List.map_cons, List.cons.injEq] at h
      have e := hf a b (h₁ a (by simp)) (h₂ b (by simp)) h.1
      rw [e, ih l₂ (fun x hx => h₁ x (by simp [hx])) (fun x hx => h₂ x (by simp [hx])) h.2]

/-! ### the delete on signatures -/

/-- no atom of the tuple is removed -/
def survives (del : List Nat) (atoms : List Nat) : Bool := atoms.all (fun a => !del.contains a)

theorem survives_iff (del atoms : List Nat) : survives del atoms = true ↔ ∀ a ∈ atoms, a ∉ del := by
  simp [survives]

/-- the signature of a surviving term after the delete -/
def reSig (del : List Nat) (x : Sig) : Sig := (x.1.map (reindex (sortDesc del)), x.2)

/-- **the delete on signatures** (from C10's `delete_terms_eq`): exactly the terms touching no removed atom, in
    order, type ids kept, atom indices through the code's re-index loop -/
theorem deleteTerms_sigs (ts : List Term) (del : List Nat) :
    (deleteTerms ts del).map sig = ((ts.map sig).filter (fun x => survives del x.1)).map (reSig del) := by
  rw [delete_terms_eq, List.map_map, List.filter_map, List.map_map]
  have hf : ts.filter (fun t => decide (t.survives del)) = ts.filter ((fun x : Sig => survives del x.1) ∘ sig) := by
    apply List.filter_congr
    intro t _
    simp only [Function.comp, sig]
    rw [Bool.eq_iff_iff, decide_eq_true_eq, survives_iff]
    rfl
  rw [hf]
  rfl

theorem reSig_newIndex (del : List Nat) (hnd : del.Nodup) (x : Sig) (hs : survives del x.1 = true) :
    reSig del x = (x.1.map (newIndex del), x.2) := by
  unfold reSig
  congr 1
  apply List.map_congr_left
  intro a ha
  exact reindex_eq_rank del hnd a ((survives_iff _ _).mp hs a ha)

/-- terms on a surviving atom tuple are counted the same before and after the delete -/
theorem countP_delete (del : List Nat) (hnd : del.Nodup) (T : List Sig) (img : List Nat)
    (himg : survives del img = true) :
    (((T.filter (fun x => survives del x.1)).map (reSig del)).countP (onAtoms (img.map (newIndex del))))
      = T.countP (onAtoms img) := by
  rw [List.countP_map, List.countP_filter]
  apply List.countP_congr
  intro x _
  have hsi := (survives_iff del img).mp himg
  have hinj : ∀ l : List Nat, (∀ a ∈ l, a ∉ del) → ∀ l' : List Nat, (∀ a ∈ l', a ∉ del) →
      l.map (newIndex del) = l'.map (newIndex del) → l = l' := by
    intro l hl l' hl' h
    exact map_inj_on (newIndex del) (fun a => a ∉ del) (fun a b ha hb e => newIndex_inj del hnd a b ha hb e)
      l l' hl hl' h
  have hrev : ∀ a ∈ img.reverse, a ∉ del := fun a ha => hsi a (by simpa using ha)
  constructor
  · intro h
    simp only [Bool.and_eq_true, Function.comp] at h
    obtain ⟨hon, hs⟩ := h
    rw [reSig_newIndex del hnd x hs] at hon
    have hsx := (survives_iff del x.1).mp hs
    rw [onAtoms_iff] at hon ⊢
    rcases hon with e | e
    · exact Or.inl (hinj _ hsx _ hsi e)
    · rw [← List.map_reverse] at e
      exact Or.inr (hinj _ hsx _ hrev e)
  · intro hon
    rw [onAtoms_iff] at hon
    have hs : survives del x.1 = true := by
      rw [survives_iff]
      rcases hon with e | e
      · rw [e]; exact hsi
      · rw [e]; exact hrev
    simp only [Bool.and_eq_true, Function.comp]
    refine ⟨?_, hs⟩
    rw [reSig_newIndex del hnd x hs, onAtoms_iff]
    rcases hon with e | e
    · left; simp [e]
    · right; simp [e, List.map_reverse]

/-- a surviving atom is found at its new index -/
theorem delete_atom_at (a res : Atoms) (del : List Nat) (hnd : del.Nodup) (h : a.delete del = .ok res)
    (x : Nat) (hx : x ∉ del) (hlt : x < a.atoms.length) : res.atoms[newIndex del x]? = a.atoms[x]? := by
  have hr : res.atoms = deleteIdx a.atoms del := by
    unfold Atoms.delete at h
    split at h
    · cases h
    · cases h; rfl
  rw [hr]
  exact deleteIdx_getElem? a.atoms del hnd x hlt hx

theorem delete_kind (κ : Kind) (a res : Atoms) (del : List Nat) (h : a.delete del = .ok res) :
    (κ.get res).terms = deleteTerms (κ.get a).terms del ∧ (κ.get res).coeffs = (κ.get a).coeffs := by
  unfold Atoms.delete at h
  split at h
  · cases h
  · cases h
    cases κ <;> exact ⟨rfl, rfl⟩

end Mofun.C06
