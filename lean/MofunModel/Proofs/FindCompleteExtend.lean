/-
  FindCompleteExtend.lean — completeness of the incremental candidate enumeration (C02):
  every tuple of near atoms that starts at a home-cell start atom of the right element, lies in the start atom's
  cubic neighbourhood, has the right elements, consists of pairwise DIFFERENT unit-cell atoms (the extension loop
  skips an atom whose unit-cell atom is already in the partial match) and reproduces ALL pairwise pattern distances
  (in the model's exact form of `math.isclose`) is produced by `candidates`.
-/
import MofunModel.Model.Find

namespace Mofun

/-! ### `sortLex` only reorders -/

theorem mem_insertLex (x y : Vec3 × Nat) (l : List (Vec3 × Nat)) : y ∈ insertLex x l ↔ y = x ∨ y ∈ l := by
  induction l with
  | nil => simp [insertLex]
  | cons z zs ih =>
    unfold insertLex
    by_cases h : lexLe x z
    · simp [h]
    · simp only [h, Bool.false_eq_true, if_false, List.mem_cons, ih]
      constructor
      · rintro (h1 | h1 | h1)
        · exact Or.inr (Or.inl h1)
        · exact Or.inl h1
        · exact Or.inr (Or.inr h1)
      · rintro (h1 | h1 | h1)
        · exact Or.inr (Or.inl h1)
        · exact Or.inl h1
        · exact Or.inr (Or.inr h1)

theorem mem_sortLex (y : Vec3 × Nat) (l : List (Vec3 × Nat)) : y ∈ sortLex l ↔ y ∈ l := by
  induction l with
  | nil => simp [sortLex]
  | cons z zs ih =>
    have : sortLex (z :: zs) = insertLex z (sortLex zs) := rfl
    rw [this, mem_insertLex, ih]; simp

/-- every position of the near list occurs in the sorted index column -/
theorem mem_sorted_idx (l : List Vec3) (k : Nat) (hk : k < l.length) :
    k ∈ (sortLex l.zipIdx).map (·.2) := by
  apply List.mem_map.mpr
  refine ⟨(l[k], k), ?_, rfl⟩
  rw [mem_sortLex, List.mem_zipIdx_iff_getElem?]
  simp [List.getElem?_eq_getElem hk]

/-! ### one extension round -/

theorem mem_extendRound (pp : List Vec3) (pelem : String) (i : Nat) (atol : Rat)
    (nearPos : Nat → Vec3) (nearElem : Nat → String) (nearUc : Nat → Nat) (nearby : List Nat) (partials : List (List Nat))
    (mt : List Nat) (cand : Nat) (hmt : mt ∈ partials) (hc : cand ∈ nearby) (hel : nearElem cand = pelem)
    (hnew : ∀ x ∈ mt, nearUc x ≠ nearUc cand)
    (hd : ∀ j, j < i → iscloseSqrt (distSq (pp.getD i Vec3.zero) (pp.getD j Vec3.zero))
                          (distSq (nearPos (mt.getD j 0)) (nearPos cand)) atol = true) :
    mt ++ [cand] ∈ extendRound pp pelem i atol nearPos nearElem nearUc nearby partials := by
  unfold extendRound
  apply List.mem_flatMap.mpr
  refine ⟨mt, hmt, ?_⟩
  apply List.mem_filterMap.mpr
  refine ⟨cand, hc, ?_⟩
  have hall : (List.range i).all (fun j =>
      iscloseSqrt (distSq (pp.getD i Vec3.zero) (pp.getD j Vec3.zero))
        (distSq (nearPos (mt.getD j 0)) (nearPos cand)) atol) = true := by
    apply List.all_eq_true.mpr
    intro j hj
    exact hd j (List.mem_range.mp hj)
  have hfresh : (mt.map nearUc).contains (nearUc cand) = false := by
    rw [List.contains_eq_mem, decide_eq_false_iff_not, List.mem_map]
    rintro ⟨x, hx, he⟩
    exact hnew x hx he
  simp only [hel, hall, hfresh, decide_true, Bool.not_false, Bool.and_self, if_true]

/-! ### all rounds -/

/-- what the code demands of a complete tuple `t` (positions in the near list) -/
structure TupleFits (pp : List Vec3) (pelems : List String) (atol : Rat) (nearPos : Nat → Vec3)
    (nearElem : Nat → String) (nearUc : Nat → Nat) (nearby : List Nat) (t : List Nat) : Prop where
  len : t.length = pp.length
  distinct : ∀ i j, j < i → i < t.length → nearUc (t.getD j 0) ≠ nearUc (t.getD i 0)
  mem : ∀ i, 1 ≤ i → i < t.length → t.getD i 0 ∈ nearby
  elem : ∀ i, 1 ≤ i → i < t.length → nearElem (t.getD i 0) = pelems.getD i ""
  dist : ∀ i j, j < i → i < t.length →
    iscloseSqrt (distSq (pp.getD i Vec3.zero) (pp.getD j Vec3.zero))
      (distSq (nearPos (t.getD j 0)) (nearPos (t.getD i 0))) atol = true

theorem getD_take {α} (l : List α) (n j : Nat) (d : α) (h : j < n) : (l.take n).getD j d = l.getD j d := by
  simp [List.getD_eq_getElem?_getD, h]

theorem take_succ_eq_append_getD {α} (l : List α) (n : Nat) (d : α) (h : n < l.length) :
    l.take (n + 1) = l.take n ++ [l.getD n d] := by
  rw [← List.take_append_getElem h]
  simp [List.getD_eq_getElem?_getD, List.getElem?_eq_getElem h]

theorem rounds_complete (pp : List Vec3) (pelems : List String) (atol : Rat) (nearPos : Nat → Vec3)
    (nearElem : Nat → String) (nearUc : Nat → Nat) (nearby : List Nat) (t : List Nat)
    (h : TupleFits pp pelems atol nearPos nearElem nearUc nearby t) (hpos : 0 < pp.length) :
    ∀ r, r + 1 ≤ pp.length →
      t.take (r + 1) ∈ (List.range r).foldl
        (fun partials r => extendRound pp (pelems.getD (r + 1) "") (r + 1) atol nearPos nearElem nearUc nearby partials)
        [[t.getD 0 0]] := by
  intro r
  induction r with
  | zero =>
    intro _
    have : t.take 1 = [t.getD 0 0] := by
      have h0 : 0 < t.length := by rw [h.len]; exact hpos
      have := take_succ_eq_append_getD t 0 0 h0
      simpa using this
    simp [this]
  | succ r ih =>
    intro hr
    have hprev := ih (by omega)
    rw [List.range_succ, List.foldl_append]
    simp only [List.foldl_cons, List.foldl_nil]
    have hlt : r + 1 < t.length := by rw [h.len]; omega
    rw [take_succ_eq_append_getD t (r + 1) 0 hlt]
    apply mem_extendRound _ _ _ _ _ _ _ _ _ _ _ hprev (h.mem (r + 1) (by omega) hlt) (h.elem (r + 1) (by omega) hlt)
    · intro x hx
      obtain ⟨j, hj, rfl⟩ := List.getElem_of_mem hx
      have hj' : j < r + 1 := by simpa [List.length_take] using (Nat.lt_of_lt_of_le hj (by simp [List.length_take]; omega))
      have e : (t.take (r + 1))[j] = t.getD j 0 := by
        rw [← getD_take t (r + 1) j 0 hj', List.getD_eq_getElem?_getD, List.getElem?_eq_getElem hj]; rfl
      rw [e]
      exact h.distinct (r + 1) j hj' hlt
    intro j hj
    rw [getD_take t (r + 1) j 0 hj]
    exact h.dist (r + 1) j hj hlt

/-- **completeness of `candidates`.** A tuple `t` of positions in the near list is among the candidates whenever
    its first entry is a home-image atom (position `< N`) of the first pattern element and every later entry
    is a near atom inside the start atom's cubic window, of the right element, reproducing all distances to the
    earlier entries, and no two entries are (images of) the same unit-cell atom. -/
theorem candidates_complete (pp : List Vec3) (pelems : List String) (atol m : Rat) (nStruct : Nat)
    (nearPosL : List Vec3) (nearElemL : List String) (nearUcL : List Nat) (t : List Nat)
    (hpos : 0 < pp.length) (hlen : t.length = pp.length)
    (hstart : t.getD 0 0 < min nStruct nearElemL.length)
    (hel0 : nearElemL.getD (t.getD 0 0) "" = pelems.getD 0 "")
    (hin : ∀ i, 1 ≤ i → i < t.length → t.getD i 0 < nearPosL.length)
    (hcube : ∀ i, 1 ≤ i → i < t.length →
      inCube (nearPosL.getD (t.getD 0 0) Vec3.zero) (nearPosL.getD (t.getD i 0) Vec3.zero) m atol = true)
    (helem : ∀ i, 1 ≤ i → i < t.length → nearElemL.getD (t.getD i 0) "" = pelems.getD i "")
    (hdist : ∀ i j, j < i → i < t.length →
      iscloseSqrt (distSq (pp.getD i Vec3.zero) (pp.getD j Vec3.zero))
        (distSq (nearPosL.getD (t.getD j 0) Vec3.zero) (nearPosL.getD (t.getD i 0) Vec3.zero)) atol = true)
    (hdistinct : ∀ i j, j < i → i < t.length → nearUcL.getD (t.getD j 0) 0 ≠ nearUcL.getD (t.getD i 0) 0) :
    t ∈ candidates pp pelems atol m nStruct nearPosL nearElemL nearUcL := by
  unfold candidates
  simp only
  apply List.mem_flatMap.mpr
  refine ⟨t.getD 0 0, ?_, ?_⟩
  · apply List.mem_filter.mpr
    exact ⟨List.mem_range.mpr hstart, by simpa using hel0⟩
  · have hfits : TupleFits pp pelems atol (fun k => nearPosL.getD k Vec3.zero) (fun k => nearElemL.getD k "")
        (fun k => nearUcL.getD k 0) (((sortLex nearPosL.zipIdx).map (·.2)).filter
          (fun k => inCube (nearPosL.getD (t.getD 0 0) Vec3.zero) (nearPosL.getD k Vec3.zero) m atol)) t :=
      { len := hlen
        distinct := hdistinct
        mem := fun i h1 h2 => List.mem_filter.mpr ⟨mem_sorted_idx _ _ (hin i h1 h2), hcube i h1 h2⟩
        elem := helem
        dist := hdist }
    have := rounds_complete pp pelems atol _ _ _ _ t hfits hpos (pp.length - 1) (by omega)
    have e : pp.length - 1 + 1 = t.length := by omega
    rw [e, List.take_length] at this
    exact this

end Mofun
