/-
  CliArgsLemmas.lean — parsing the canonical command line of an option record gives the record back
  (helper lemmas for Props/C20Args.lean).
-/
import MofunModel.Model.CliArgs
import MofunModel.Proofs.CifLemmas

namespace Mofun.Cli
open Mofun

/-! ### numbers as text -/

theorem toDigits_all_digit (n : Nat) : (Nat.toDigits 10 n).all Char.isDigit = true := by
  rw [List.all_eq_true]
  intro c hc
  exact Nat.isDigit_of_mem_toDigits (by decide) (by decide) hc

theorem toDigits_ne_nil' (n : Nat) : (Nat.toDigits 10 n).isEmpty = false := by
  cases h : Nat.toDigits 10 n with
  | nil => exact absurd h Nat.toDigits_ne_nil
  | cons _ _ => rfl

theorem readDigits_toDigits (n : Nat) : Lmp.readDigits (Nat.toDigits 10 n) = some n := by
  unfold Lmp.readDigits
  simp [toDigits_ne_nil', toDigits_all_digit]

theorem toDigits_head (n : Nat) : ∃ c t, Nat.toDigits 10 n = c :: t ∧ c.isDigit = true := by
  cases h : Nat.toDigits 10 n with
  | nil => exact absurd h Nat.toDigits_ne_nil
  | cons c t =>
    refine ⟨c, t, rfl, ?_⟩
    have := toDigits_all_digit n
    rw [h] at this
    simp at this
    exact this.1

theorem signed_digit (rd : List Char → Option Nat) (c : Char) (t : List Char) (hc : c.isDigit = true) :
    Lmp.signed rd (c :: t) = (rd (c :: t)).map (fun (n : Nat) => Int.ofNat n) := by
  have h1 : c ≠ '-' := by intro h; subst h; exact absurd hc (by decide)
  have h2 : c ≠ '+' := by intro h; subst h; exact absurd hc (by decide)
  unfold Lmp.signed
  split
  · rename_i heq; cases heq; exact absurd rfl h1
  · rename_i heq; cases heq; exact absurd rfl h2
  · rfl

/-- a text made of digits, signs, `e` and `.` only: nothing to strip, no underscore to drop -/
def Plain (l : List Char) : Prop := ∀ c ∈ l, Lmp.isWs c = false ∧ c ≠ '_'

theorem stripRight_plain (l : List Char) (h : ∀ c ∈ l, Lmp.isWs c = false) : Lmp.stripRight l = l := by
  induction l with
  | nil => rfl
  | cons c cs ih =>
    have hc := h c (List.mem_cons_self ..)
    have := ih (fun x hx => h x (List.mem_cons_of_mem _ hx))
    simp only [Lmp.stripRight, this]
    cases cs with
    | nil => simp [hc]
    | cons _ _ => rfl

theorem dropUnderscores_plain (l : List Char) (h : ∀ c ∈ l, c ≠ '_') (b : Bool) : dropUnderscores b l = some l := by
  induction l generalizing b with
  | nil => rfl
  | cons c cs ih =>
    have hc := h c (List.mem_cons_self ..)
    simp only [dropUnderscores, hc, if_false]
    rw [ih (fun x hx => h x (List.mem_cons_of_mem _ hx))]
    rfl

theorem normNum_plain (l : List Char) (h : Plain l) : normNum l = some l := by
  unfold normNum Lmp.strip
  have hws : ∀ c ∈ l, Lmp.isWs c = false := fun c hc => (h c hc).1
  have hd : l.dropWhile Lmp.isWs = l := by
    cases l with
    | nil => rfl
    | cons c cs => simp [List.dropWhile_cons, hws c (List.mem_cons_self ..)]
  rw [hd, stripRight_plain l hws]
  exact dropUnderscores_plain l (fun c hc => (h c hc).2) false

theorem isWs_of_digit (c : Char) (hd : c.isDigit = true) : Lmp.isWs c = false := by
  simp only [Char.isDigit, Bool.and_eq_true, decide_eq_true_eq] at hd
  have h1 : 48 ≤ c.val.toNat := by have := UInt32.le_iff_toNat_le.mp hd.1; simpa using this
  cases hw : Lmp.isWs c with
  | false => rfl
  | true =>
    exfalso
    simp only [Lmp.isWs, Bool.or_eq_true, Bool.and_eq_true, beq_iff_eq, decide_eq_true_eq] at hw
    rcases hw with (hw | hw) | hw
    · rw [hw] at h1; revert h1; decide
    · have := UInt32.le_iff_toNat_le.mp hw.2; have e : c.val.toNat = c.toNat := rfl; simp at this; omega
    · have := UInt32.le_iff_toNat_le.mp hw.2; have e : c.val.toNat = c.toNat := rfl; simp at this; omega

theorem plain_digits (n : Nat) : Plain (Nat.toDigits 10 n) := by
  intro c hc
  have hd : c.isDigit = true := Nat.isDigit_of_mem_toDigits (by decide) (by decide) hc
  exact ⟨isWs_of_digit c hd, by intro he; subst he; exact absurd hd (by decide)⟩

theorem plain_cons (c : Char) (l : List Char) (hc : Lmp.isWs c = false ∧ c ≠ '_') (h : Plain l) : Plain (c :: l) := by
  intro x hx
  rcases List.mem_cons.mp hx with rfl | hx
  · exact hc
  · exact h x hx

theorem plain_append (a b : List Char) (ha : Plain a) (hb : Plain b) : Plain (a ++ b) := by
  intro x hx
  rcases List.mem_append.mp hx with hx | hx
  · exact ha x hx
  · exact hb x hx

theorem convInt_showNat (n : Nat) : convInt (Lmp.showNat n) = some (n : Int) := by
  unfold convInt Lmp.showNat
  rw [String.toList_ofList, normNum_plain _ (plain_digits n)]
  obtain ⟨c, t, h, hc⟩ := toDigits_head n
  simp only [Option.bind_some]
  have := signed_digit Lmp.readDigits c t hc
  rw [← h] at this
  rw [this, readDigits_toDigits]
  rfl

theorem convInt_showInt (i : Int) : convInt (Lmp.showInt i) = some i := by
  by_cases h : i < 0
  · unfold convInt Lmp.showInt
    simp only [h, if_true]
    rw [String.toList_ofList, normNum_plain _ (plain_cons '-' _ (by decide) (plain_digits _))]
    simp only [Option.bind_some, Lmp.signed, readDigits_toDigits, Option.map_some]
    congr 1
    show -((i.natAbs : Nat) : Int) = i
    omega
  · have : Lmp.showInt i = Lmp.showNat i.toNat := by unfold Lmp.showInt; simp [h]
    rw [this, convInt_showNat]
    congr 1
    omega

theorem digits_noE (n : Nat) : ∀ c ∈ Nat.toDigits 10 n, (!Cif.isE c) = true := by
  intro c hc
  have := Cif.digit_not_sign c (Cif.toDigits_isDigit n c hc)
  simp [Cif.isE, this.2.2.2.1, this.2.2.2.2.1]

theorem digitsVal_toDigits (n : Nat) : Cif.digitsVal (Nat.toDigits 10 n) = n := by
  unfold Cif.digitsVal
  exact Nat.ofDigitChars_ten_toDigits

theorem allDigits_toDigits (n : Nat) : Cif.allDigits (Nat.toDigits 10 n) = true := by
  unfold Cif.allDigits
  rw [List.all_eq_true]
  exact Cif.toDigits_isDigit n

theorem toDigits_isEmpty (n : Nat) : (Nat.toDigits 10 n).isEmpty = false := by
  cases h : Nat.toDigits 10 n with
  | nil => exact absurd h Nat.toDigits_ne_nil
  | cons _ _ => rfl

/-- unsigned `<digits n>e-<digits k>` -/
theorem parseFloatL_exp (n k : Nat) (neg : Bool) :
    Cif.parseFloatL ((if neg then ['-'] else []) ++ (Nat.toDigits 10 n ++ 'e' :: '-' :: Nat.toDigits 10 k)) =
      some (let q : Rat := (n : Rat) / ((10 ^ k : Nat) : Rat); if neg then -q else q) := by
  have hsign : Cif.parseSign ((if neg then ['-'] else []) ++ (Nat.toDigits 10 n ++ 'e' :: '-' :: Nat.toDigits 10 k))
      = (neg, Nat.toDigits 10 n ++ 'e' :: '-' :: Nat.toDigits 10 k) := by
    cases neg with
    | true => rfl
    | false =>
      obtain ⟨c, t, h, hc⟩ := toDigits_head n
      simp only [Bool.false_eq_true, if_false, List.nil_append, h, List.cons_append]
      exact Cif.parseSign_digit c _ hc
  have hE : Cif.isE 'e' = true := by decide
  have htw : (Nat.toDigits 10 n ++ 'e' :: '-' :: Nat.toDigits 10 k).takeWhile (fun c => !Cif.isE c) = Nat.toDigits 10 n := by
    rw [List.takeWhile_append_of_pos (digits_noE n)]
    simp [hE]
  have hdw : (Nat.toDigits 10 n ++ 'e' :: '-' :: Nat.toDigits 10 k).dropWhile (fun c => !Cif.isE c)
      = 'e' :: '-' :: Nat.toDigits 10 k := by
    rw [List.dropWhile_append_of_pos (digits_noE n)]
    simp [hE]
  have hmant : Cif.parseMant (Nat.toDigits 10 n) = some (n, 0) := by
    unfold Cif.parseMant
    rw [Cif.takeWhile_all _ _ (Cif.toDigits_isDigit n), Cif.dropWhile_all _ _ (Cif.toDigits_isDigit n)]
    simp [toDigits_isEmpty, digitsVal_toDigits]
  have hexp : Cif.parseExp ('-' :: Nat.toDigits 10 k) = some (-((k : Nat) : Int)) := by
    unfold Cif.parseExp
    have : Cif.parseSign ('-' :: Nat.toDigits 10 k) = (true, Nat.toDigits 10 k) := rfl
    simp [this, toDigits_isEmpty, allDigits_toDigits, digitsVal_toDigits]
  unfold Cif.parseFloatL
  simp only [hsign, htw, hdw, hmant, hexp]
  congr 1
  have hp : Cif.pow10 (-((k : Nat) : Int)) = 1 / ((10 ^ k : Nat) : Rat) := by
    unfold Cif.pow10
    by_cases hk : k = 0
    · subst hk; simp
    · have : ¬ (-(k : Int) ≥ 0) := by omega
      simp [this, hk]
  rw [hp]
  cases neg <;> simp [div_eq_mul_inv]

theorem convFloat_showDec (d : Dec) : convFloat (showDec d) = some d.toRat := by
  unfold convFloat showDec Lmp.showInt Lmp.showNat
  have hs : "e-".toList = ['e', '-'] := rfl
  have hplain_e : Plain ('e' :: '-' :: Nat.toDigits 10 d.e) :=
    plain_cons 'e' _ (by decide) (plain_cons '-' _ (by decide) (plain_digits _))
  by_cases h : d.m < 0
  · simp only [h, if_true, String.toList_append, String.toList_ofList, hs]
    have hp : Plain (('-' :: Nat.toDigits 10 d.m.natAbs) ++ ['e', '-'] ++ Nat.toDigits 10 d.e) := by
      have := plain_append _ _ (plain_cons '-' _ (by decide) (plain_digits d.m.natAbs)) hplain_e
      simpa using this
    rw [normNum_plain _ hp]
    simp only [Option.bind_some]
    have := parseFloatL_exp d.m.natAbs d.e true
    simp only [if_true, List.cons_append, List.nil_append] at this
    simp only [List.cons_append, List.nil_append, List.append_assoc] at this ⊢
    rw [this]
    congr 1
    unfold Dec.toRat
    have : (d.m : Rat) = -((d.m.natAbs : Nat) : Rat) := by
      have h2 : d.m = -((d.m.natAbs : Nat) : Int) := by omega
      calc (d.m : Rat) = ((-((d.m.natAbs : Nat) : Int) : Int) : Rat) := by rw [← h2]
        _ = -((d.m.natAbs : Nat) : Rat) := by rw [Int.cast_neg, Int.cast_natCast]
    rw [this]
    ring
  · simp only [h, if_false, String.toList_append, String.toList_ofList, hs]
    have hp : Plain (Nat.toDigits 10 d.m.toNat ++ ['e', '-'] ++ Nat.toDigits 10 d.e) := by
      have := plain_append _ _ (plain_digits d.m.toNat) hplain_e
      simpa using this
    rw [normNum_plain _ hp]
    simp only [Option.bind_some]
    have := parseFloatL_exp d.m.toNat d.e false
    simp only [Bool.false_eq_true, if_false, List.nil_append] at this
    simp only [List.cons_append, List.nil_append, List.append_assoc] at this ⊢
    rw [this]
    congr 1
    unfold Dec.toRat
    have : (d.m : Rat) = ((d.m.toNat : Nat) : Rat) := by
      have h2 : d.m = ((d.m.toNat : Nat) : Int) := by omega
      calc (d.m : Rat) = ((((d.m.toNat : Nat) : Int) : Int) : Rat) := by rw [← h2]
        _ = ((d.m.toNat : Nat) : Rat) := by rw [Int.cast_natCast]
    rw [this]

/-! ### scanning the canonical command line -/

structure Given.WF (g : Given) : Prop where
  long : lookupLong (String.ofList (splitEq g.name.toList).1) = some g.id
  noEq : (splitEq g.name.toList).2 = none
  optLike : isOptLike g.name = true
  notDD : g.name ≠ "--"
  arity : ∀ vs, g.vals = some vs → vs.length = g.id.nargs

theorem takeValues_exact (vs rest : List String) : takeValues vs.length none (vs ++ rest) = some (vs, rest) := by
  unfold takeValues
  simp

theorem processOpt_given (g : Given) (hw : g.WF) (vs : List String) (hv : g.vals = some vs) (rest : List String) :
    processOpt g.name (vs ++ rest) = .ok ((g.id, vs), rest) := by
  unfold processOpt
  dsimp only
  have h1 := hw.long
  have h2 := hw.noEq
  generalize splitEq g.name.toList = sp at h1 h2 ⊢
  obtain ⟨nm, att⟩ := sp
  simp only at h1 h2
  subst h2
  simp only [h1]
  have hlen := hw.arity vs hv
  by_cases h0 : g.id.nargs = 0
  · simp only [h0, if_true]
    have : vs = [] := by
      cases vs with
      | nil => rfl
      | cons _ _ => rw [h0] at hlen; cases hlen
    subst this
    rfl
  · simp only [h0, if_false, Option.map_none]
    rw [← hlen, takeValues_exact]

theorem scanGo_givens (gs : List Given) (hw : ∀ g ∈ gs, g.WF) :
    ∀ (fuel : Nat) (acc : Scan), (gs.flatMap Given.tokens).length < fuel →
      scanGo fuel (gs.flatMap Given.tokens) acc = .ok { acc with opts := acc.opts ++ gs.flatMap Given.occ } := by
  induction gs with
  | nil =>
    intro fuel acc hf
    cases fuel with
    | zero => simp at hf
    | succ f => simp [scanGo]
  | cons g tl ih =>
    intro fuel acc hf
    have hwg := hw g (List.mem_cons_self ..)
    have hwt : ∀ x ∈ tl, x.WF := fun x hx => hw x (List.mem_cons_of_mem _ hx)
    cases hv : g.vals with
    | none =>
      have e1 : (g :: tl).flatMap Given.tokens = tl.flatMap Given.tokens := by
        simp [List.flatMap_cons, Given.tokens, hv]
      have e2 : (g :: tl).flatMap Given.occ = tl.flatMap Given.occ := by
        simp [List.flatMap_cons, Given.occ, hv]
      rw [e1] at hf ⊢
      rw [e2]
      exact ih hwt fuel acc hf
    | some vs =>
      have e1 : (g :: tl).flatMap Given.tokens = g.name :: (vs ++ tl.flatMap Given.tokens) := by
        simp [List.flatMap_cons, Given.tokens, hv]
      have e2 : (g :: tl).flatMap Given.occ = (g.id, vs) :: tl.flatMap Given.occ := by
        simp [List.flatMap_cons, Given.occ, hv]
      rw [e1] at hf ⊢
      rw [e2]
      cases fuel with
      | zero => simp at hf
      | succ f =>
        simp only [scanGo, hwg.notDD, if_false, hwg.optLike, if_true, processOpt_given g hwg vs hv]
        have hf' : (tl.flatMap Given.tokens).length < f := by
          simp only [List.length_cons, List.length_append] at hf
          omega
        rw [ih hwt f _ hf']
        simp

theorem scan_positional (inp : String) (rest : List String) (fuel : Nat) (acc : Scan)
    (h : isOptLike inp = false) :
    scanGo (fuel + 1) (inp :: rest) acc = scanGo fuel rest { acc with pos := acc.pos ++ [inp] } := by
  have hne : inp ≠ "--" := by
    intro he; subst he; revert h; decide
  simp only [scanGo, hne, if_false, h, Bool.false_eq_true]

/-! ### the recorded occurrences: every option at most once -/

theorem lastOf_append (a b : List (OptId × List String)) (id : OptId) :
    lastOf (a ++ b) id = (lastOf b id).or (lastOf a id) := by
  unfold lastOf
  rw [List.reverse_append, List.find?_append]
  cases b.reverse.find? (fun x => decide (x.1 = id)) <;> rfl

theorem lastOf_none_of_not_mem (gs : List Given) (id : OptId) (h : id ∉ gs.map (·.id)) :
    lastOf (gs.flatMap Given.occ) id = none := by
  induction gs with
  | nil => rfl
  | cons g tl ih =>
    simp only [List.map_cons, List.mem_cons, not_or] at h
    rw [List.flatMap_cons, lastOf_append, ih h.2]
    simp only [Option.none_or]
    unfold Given.occ lastOf
    cases g.vals with
    | none => rfl
    | some vs =>
      have : ¬ g.id = id := fun e => h.1 e.symm
      simp [this]

theorem lastOf_givens (gs : List Given) (hn : (gs.map (·.id)).Nodup) (g : Given) (hg : g ∈ gs) :
    lastOf (gs.flatMap Given.occ) g.id = g.vals := by
  induction gs with
  | nil => cases hg
  | cons h tl ih =>
    simp only [List.map_cons, List.nodup_cons] at hn
    rw [List.flatMap_cons, lastOf_append]
    rcases List.mem_cons.mp hg with rfl | hin
    · rw [lastOf_none_of_not_mem tl g.id hn.1]
      simp only [Option.none_or]
      unfold Given.occ lastOf
      cases g.vals with
      | none => rfl
      | some vs => simp
    · rw [ih hn.2 hin]
      cases hv : g.vals with
      | some vs => rfl
      | none =>
        simp only [Option.none_or]
        have hne : ¬ h.id = g.id := by
          intro e
          exact hn.1 (e ▸ List.mem_map_of_mem hin)
        unfold Given.occ lastOf
        cases h.vals with
        | none => rfl
        | some vs => simp [hne]

theorem ids_of_occ (gs : List Given) : ∀ id ∈ (gs.flatMap Given.occ).map (·.1), id ∈ gs.map (·.id) := by
  induction gs with
  | nil => intro id h; cases h
  | cons g tl ih =>
    intro id h
    simp only [List.flatMap_cons, List.map_append, List.mem_append] at h
    rcases h with h | h
    · unfold Given.occ at h
      cases hv : g.vals with
      | none => rw [hv] at h; cases h
      | some vs => rw [hv] at h; simp at h; subst h; simp
    · exact List.mem_cons_of_mem _ (ih id h)

end Mofun.Cli
