/-
  CliArgsLemmas.lean — parsing the canonical command line of an option record gives the record back
  (helper lemmas for Props/C20Args.lean).
-/
import MofunModel.Model.CliArgs
import MofunModel.Proofs.LmpLemmas
import MofunModel.Proofs.CifLemmas

namespace Mofun.Cli
open Mofun

/-! ### numbers as text -/

theorem convInt_showNat (n : Nat) : convInt (Lmp.showNat n) = some (n : Int) := Lmp.readInt_showNat n

theorem convInt_showInt (i : Int) : convInt (Lmp.showInt i) = some i := by
  unfold convInt Lmp.showInt
  by_cases h : i < 0
  · simp only [h, if_true]
    unfold Lmp.readInt
    rw [String.toList_ofList, Lmp.signed_minus, Lmp.readDigits_toDigits]
    simp only [Option.map_some]
    congr 1
    show -((i.natAbs : Nat) : Int) = i
    omega
  · simp only [h, if_false]
    rw [Lmp.readInt_showNat]
    congr 1
    omega

theorem digits_noE (n : Nat) : ∀ c ∈ Nat.toDigits 10 n, (!Cif.isE c) = true := by
  intro c hc
  have := Cif.digit_not_sign c (Cif.toDigits_isDigit n c hc)
  simp [Cif.isE, this.2.2.2.1, this.2.2.2.2.1]

theorem digitsVal_toDigits (n : Nat) : Cif.digitsVal (Nat.toDigits 10 n) = n := by
  unfold Cif.digitsVal
  exact Nat.ofDigitChars_ten_toDigits

theorem allDigits_toDigits (n : Nat) : Cif.allDigits (Nat.toDigits 10 n) = true := by
  unfold Cif.allDigits
  rw [List.all_eq_true]
  exact Cif.toDigits_isDigit n

theorem toDigits_isEmpty (n : Nat) : (Nat.toDigits 10 n).isEmpty = false := by
  cases h : Nat.toDigits 10 n with
  | nil => exact absurd h Nat.toDigits_ne_nil
  | cons _ _ => rfl

/-- unsigned `<digits n>e-<digits k>` -/
theorem parseFloatL_exp (n k : Nat) (neg : Bool) :
    Cif.parseFloatL ((if neg then ['-'] else []) ++ (Nat.toDigits 10 n ++ 'e' :: '-' :: Nat.toDigits 10 k)) =
      some (let q : Rat := (n : Rat) / ((10 ^ k : Nat) : Rat); if neg then -q else q) := by
  have hsign : Cif.parseSign ((if neg then ['-'] else []) ++ (Nat.toDigits 10 n ++ 'e' :: '-' :: Nat.toDigits 10 k))
      = (neg, Nat.toDigits 10 n ++ 'e' :: '-' :: Nat.toDigits 10 k) := by
    cases neg with
    | true => rfl
    | false =>
      obtain ⟨c, t, h, hc⟩ := Lmp.toDigits_head n
      simp only [Bool.false_eq_true, if_false, List.nil_append, h, List.cons_append]
      exact Cif.parseSign_digit c _ hc
  have hE : Cif.isE 'e' = true := by decide
  have htw : (Nat.toDigits 10 n ++ 'e' :: '-' :: Nat.toDigits 10 k).takeWhile (fun c => !Cif.isE c) = Nat.toDigits 10 n := by
    rw [List.takeWhile_append_of_pos (digits_noE n)]
    simp [hE]
  have hdw : (Nat.toDigits 10 n ++ 'e' :: '-' :: Nat.toDigits 10 k).dropWhile (fun c => !Cif.isE c)
      = 'e' :: '-' :: Nat.toDigits 10 k := by
    rw [List.dropWhile_append_of_pos (digits_noE n)]
    simp [hE]
  have hmant : Cif.parseMant (Nat.toDigits 10 n) = some (n, 0) := by
    unfold Cif.parseMant
    rw [Cif.takeWhile_all _ _ (Cif.toDigits_isDigit n), Cif.dropWhile_all _ _ (Cif.toDigits_isDigit n)]
    simp [toDigits_isEmpty, digitsVal_toDigits]
  have hexp : Cif.parseExp ('-' :: Nat.toDigits 10 k) = some (-((k : Nat) : Int)) := by
    unfold Cif.parseExp
    have : Cif.parseSign ('-' :: Nat.toDigits 10 k) = (true, Nat.toDigits 10 k) := rfl
    simp [this, toDigits_isEmpty, allDigits_toDigits, digitsVal_toDigits]
  unfold Cif.parseFloatL
  simp only [hsign, htw, hdw, hmant, hexp]
  congr 1
  have hp : Cif.pow10 (-((k : Nat) : Int)) = 1 / ((10 ^ k : Nat) : Rat) := by
    unfold Cif.pow10
    by_cases hk : k = 0
    · subst hk; simp
    · have : ¬ (-(k : Int) ≥ 0) := by omega
      simp [this, hk]
  rw [hp]
  cases neg <;> simp [div_eq_mul_inv]

theorem convFloat_showDec (d : Dec) : convFloat (showDec d) = some d.toRat := by
  unfold convFloat Cif.parseFloat showDec Lmp.showInt Lmp.showNat
  by_cases h : d.m < 0
  · simp only [h, if_true, String.toList_append, String.toList_ofList]
    have := parseFloatL_exp d.m.natAbs d.e true
    simp only [if_true, List.cons_append, List.nil_append] at this
    have hs : "e-".toList = ['e', '-'] := rfl
    rw [hs]
    simp only [List.cons_append, List.nil_append, List.append_assoc] at this ⊢
    rw [this]
    congr 1
    unfold Dec.toRat
    have : (d.m : Rat) = -((d.m.natAbs : Nat) : Rat) := by
      have h2 : d.m = -((d.m.natAbs : Nat) : Int) := by omega
      calc (d.m : Rat) = ((-((d.m.natAbs : Nat) : Int) : Int) : Rat) := by rw [← h2]
        _ = -((d.m.natAbs : Nat) : Rat) := by rw [Int.cast_neg, Int.cast_natCast]
    rw [this]
    ring
  · simp only [h, if_false, String.toList_append, String.toList_ofList]
    have := parseFloatL_exp d.m.toNat d.e false
    simp only [Bool.false_eq_true, if_false, List.nil_append] at this
    have hs : "e-".toList = ['e', '-'] := rfl
    rw [hs]
    simp only [List.cons_append, List.nil_append, List.append_assoc] at this ⊢
    rw [this]
    congr 1
    unfold Dec.toRat
    have : (d.m : Rat) = ((d.m.toNat : Nat) : Rat) := by
      have h2 : d.m = ((d.m.toNat : Nat) : Int) := by omega
      calc (d.m : Rat) = ((((d.m.toNat : Nat) : Int) : Int) : Rat) := by rw [← h2]
        _ = ((d.m.toNat : Nat) : Rat) := by rw [Int.cast_natCast]
    rw [this]

/-! ### scanning the canonical command line -/

structure Given.WF (g : Given) : Prop where
  long : lookupLong (String.ofList (splitEq g.name.toList).1) = some g.id
  noEq : (splitEq g.name.toList).2 = none
  optLike : isOptLike g.name = true
  notDD : g.name ≠ "--"
  arity : ∀ vs, g.vals = some vs → vs.length = g.id.nargs

theorem takeValues_exact (vs rest : List String) : takeValues vs.length none (vs ++ rest) = some (vs, rest) := by
  unfold takeValues
  simp

theorem processOpt_given (g : Given) (hw : g.WF) (vs : List String) (hv : g.vals = some vs) (rest : List String) :
    processOpt g.name (vs ++ rest) = .ok ((g.id, vs), rest) := by
  unfold processOpt
  dsimp only
  have h1 := hw.long
  have h2 := hw.noEq
  generalize splitEq g.name.toList = sp at h1 h2 ⊢
  obtain ⟨nm, att⟩ := sp
  simp only at h1 h2
  subst h2
  simp only [h1]
  have hlen := hw.arity vs hv
  by_cases h0 : g.id.nargs = 0
  · simp only [h0, if_true]
    have : vs = [] := by
      cases vs with
      | nil => rfl
      | cons _ _ => rw [h0] at hlen; cases hlen
    subst this
    rfl
  · simp only [h0, if_false, Option.map_none]
    rw [← hlen, takeValues_exact]

theorem scanGo_givens (gs : List Given) (hw : ∀ g ∈ gs, g.WF) :
    ∀ (fuel : Nat) (acc : Scan), (gs.flatMap Given.tokens).length < fuel →
      scanGo fuel (gs.flatMap Given.tokens) acc = .ok { acc with opts := acc.opts ++ gs.flatMap Given.occ } := by
  induction gs with
  | nil =>
    intro fuel acc hf
    cases fuel with
    | zero => simp at hf
    | succ f => simp [scanGo]
  | cons g tl ih =>
    intro fuel acc hf
    have hwg := hw g (List.mem_cons_self ..)
    have hwt : ∀ x ∈ tl, x.WF := fun x hx => hw x (List.mem_cons_of_mem _ hx)
    cases hv : g.vals with
    | none =>
      have e1 : (g :: tl).flatMap Given.tokens = tl.flatMap Given.tokens := by
        simp [List.flatMap_cons, Given.tokens, hv]
      have e2 : (g :: tl).flatMap Given.occ = tl.flatMap Given.occ := by
        simp [List.flatMap_cons, Given.occ, hv]
      rw [e1] at hf ⊢
      rw [e2]
      exact ih hwt fuel acc hf
    | some vs =>
      have e1 : (g :: tl).flatMap Given.tokens = g.name :: (vs ++ tl.flatMap Given.tokens) := by
        simp [List.flatMap_cons, Given.tokens, hv]
      have e2 : (g :: tl).flatMap Given.occ = (g.id, vs) :: tl.flatMap Given.occ := by
        simp [List.flatMap_cons, Given.occ, hv]
      rw [e1] at hf ⊢
      rw [e2]
      cases fuel with
      | zero => simp at hf
      | succ f =>
        simp only [scanGo, hwg.notDD, if_false, hwg.optLike, if_true, processOpt_given g hwg vs hv]
        have hf' : (tl.flatMap Given.tokens).length < f := by
          simp only [List.length_cons, List.length_append] at hf
          omega
        rw [ih hwt f _ hf']
        simp

theorem scan_positional (inp : String) (rest : List String) (fuel : Nat) (acc : Scan)
    (h : isOptLike inp = false) :
    scanGo (fuel + 1) (inp :: rest) acc = scanGo fuel rest { acc with pos := acc.pos ++ [inp] } := by
  have hne : inp ≠ "--" := by
    intro he; subst he; revert h; decide
  simp only [scanGo, hne, if_false, h, Bool.false_eq_true]

/-! ### the recorded occurrences: every option at most once -/

theorem lastOf_append (a b : List (OptId × List String)) (id : OptId) :
    lastOf (a ++ b) id = (lastOf b id).or (lastOf a id) := by
  unfold lastOf
  rw [List.reverse_append, List.find?_append]
  cases b.reverse.find? (fun x => decide (x.1 = id)) <;> rfl

theorem lastOf_none_of_not_mem (gs : List Given) (id : OptId) (h : id ∉ gs.map (·.id)) :
    lastOf (gs.flatMap Given.occ) id = none := by
  induction gs with
  | nil => rfl
  | cons g tl ih =>
    simp only [List.map_cons, List.mem_cons, not_or] at h
    rw [List.flatMap_cons, lastOf_append, ih h.2]
    simp only [Option.none_or]
    unfold Given.occ lastOf
    cases g.vals with
    | none => rfl
    | some vs =>
      have : ¬ g.id = id := fun e => h.1 e.symm
      simp [this]

theorem lastOf_givens (gs : List Given) (hn : (gs.map (·.id)).Nodup) (g : Given) (hg : g ∈ gs) :
    lastOf (gs.flatMap Given.occ) g.id = g.vals := by
  induction gs with
  | nil => cases hg
  | cons h tl ih =>
    simp only [List.map_cons, List.nodup_cons] at hn
    rw [List.flatMap_cons, lastOf_append]
    rcases List.mem_cons.mp hg with rfl | hin
    · rw [lastOf_none_of_not_mem tl g.id hn.1]
      simp only [Option.none_or]
      unfold Given.occ lastOf
      cases g.vals with
      | none => rfl
      | some vs => simp
    · rw [ih hn.2 hin]
      cases hv : g.vals with
      | some vs => rfl
      | none =>
        simp only [Option.none_or]
        have hne : ¬ h.id = g.id := by
          intro e
          exact hn.1 (e ▸ List.mem_map_of_mem hin)
        unfold Given.occ lastOf
        cases h.vals with
        | none => rfl
        | some vs => simp [hne]

theorem ids_of_occ (gs : List Given) : ∀ id ∈ (gs.flatMap Given.occ).map (·.1), id ∈ gs.map (·.id) := by
  induction gs with
  | nil => intro id h; cases h
  | cons g tl ih =>
    intro id h
    simp only [List.flatMap_cons, List.map_append, List.mem_append] at h
    rcases h with h | h
    · unfold Given.occ at h
      cases hv : g.vals with
      | none => rw [hv] at h; cases h
      | some vs => rw [hv] at h; simp at h; subst h; simp
    · exact List.mem_cons_of_mem _ (ih id h)

end Mofun.Cli
