/-
  WrapLemmas.lean — fractional coordinates and the wrap into the cell (Model/Lattice.lean):
    `cart (frac x) = x`, `frac (cart f) = f` (Cramer's rule, `det ≠ 0`), `fracPart ∈ [0,1)`,
    `wrap x = x + (i·A + j·B + k·C)` with INTEGERS `i j k`, `frac (wrap x) ∈ [0,1)³`,
    `wrap x = x` for points inside the cell.
  Used by C05 (placement) and C08 (self-replacement / round trip).
-/
import MofunModel.Model.Lattice
import Mathlib.Tactic.Ring
import Mathlib.Tactic.FieldSimp
import Mathlib.Tactic.Linarith

namespace Mofun.C05

open Mofun

/-! ### vectors -/

theorem vec3_ext {a b : Vec3} (hx : a.x = b.x) (hy : a.y = b.y) (hz : a.z = b.z) : a = b := by
  cases a; cases b; simp_all

/-- the determinant written out -/
theorem det_expand (m : Mat3) :
    m.det = (m.a.y * m.b.z - m.a.z * m.b.y) * m.c.x + (m.a.z * m.b.x - m.a.x * m.b.z) * m.c.y
            + (m.a.x * m.b.y - m.a.y * m.b.x) * m.c.z := by
  simp only [Mat3.det, Vec3.dot, Vec3.cross]

/-! ### Cramer's rule -/

/-- dividing a polynomial identity by the (atomic) determinant -/
theorem div_combo (d p q r a b c x : Rat) (hd : d ≠ 0) (h : p * a + q * b + r * c = x * d) :
    p / d * a + q / d * b + r / d * c = x := by
  have : p / d * a + q / d * b + r / d * c = (p * a + q * b + r * c) / d := by
    field_simp
  rw [this, h]
  field_simp

/-- **cart_frac**: the fractional coordinates computed by Cramer's rule reproduce the point -/
theorem cart_frac (m : Mat3) (v : Vec3) (hd : m.det ≠ 0) : m.cart (m.frac v) = v := by
  apply vec3_ext
  all_goals
    simp only [Mat3.cart, Mat3.frac, Mat3.lattice, Vec3.add, Vec3.smul]
    apply div_combo _ _ _ _ _ _ _ _ hd
    simp only [Mat3.det, Vec3.dot, Vec3.cross]
    ring

/-- **frac_cart**: the fractional coordinates of `f.x·A + f.y·B + f.z·C` are `f` -/
theorem frac_cart (m : Mat3) (f : Vec3) (hd : m.det ≠ 0) : m.frac (m.cart f) = f := by
  apply vec3_ext
  all_goals
    simp only [Mat3.frac]
    rw [div_eq_iff hd]
    simp only [Mat3.cart, Mat3.lattice, Vec3.add, Vec3.smul, Mat3.det, Vec3.dot, Vec3.cross]
    ring

/-- `cart` is linear: shifting the fractional coordinates by `(i, j, k)` shifts the point by `i·A + j·B + k·C` -/
theorem cart_shift (m : Mat3) (f : Vec3) (i j k : Rat) :
    m.cart ⟨f.x + i, f.y + j, f.z + k⟩ = Vec3.add (m.cart f) (m.lattice i j k) := by
  apply vec3_ext <;> simp only [Mat3.cart, Mat3.lattice, Vec3.add, Vec3.smul] <;> ring

/-- `frac` of a lattice translate: the fractional coordinates move by the multipliers -/
theorem frac_shift (m : Mat3) (v : Vec3) (i j k : Rat) (hd : m.det ≠ 0) :
    m.frac (Vec3.add v (m.lattice i j k)) = ⟨(m.frac v).x + i, (m.frac v).y + j, (m.frac v).z + k⟩ := by
  have h := cart_shift m (m.frac v) i j k
  rw [cart_frac m v hd] at h
  rw [← h, frac_cart m _ hd]

/-! ### `x mod 1` -/

/-- **fracPart_range** -/
theorem fracPart_range (x : Rat) : 0 ≤ fracPart x ∧ fracPart x < 1 := by
  unfold fracPart
  have h1 := Rat.floor_le x
  have h2 := Rat.lt_floor_add_one x
  have h3 : ((x.floor + 1 : Int) : Rat) = (x.floor : Rat) + 1 := by simp
  rw [h3] at h2
  constructor <;> linarith

/-- a number already in `[0, 1)` has floor 0 -/
theorem floor_eq_zero_of_range (x : Rat) (h0 : 0 ≤ x) (h1 : x < 1) : x.floor = 0 := by
  have ha : (0 : Int) ≤ x.floor := Rat.le_floor_iff.mpr (by simpa using h0)
  have hb : x.floor < (1 : Int) := Rat.floor_lt_iff.mpr (by simpa using h1)
  omega

theorem fracPart_id_of_range (x : Rat) (h0 : 0 ≤ x) (h1 : x < 1) : fracPart x = x := by
  unfold fracPart
  rw [floor_eq_zero_of_range x h0 h1]
  simp

/-- `x mod 1 = x + n` for the integer `n = −⌊x⌋` -/
theorem fracPart_eq_add_int (x : Rat) : fracPart x = x + ((-x.floor : Int) : Rat) := by
  unfold fracPart
  simp [Rat.sub_eq_add_neg]

/-! ### the wrap -/

/-- inside the cell: all three fractional coordinates in `[0, 1)` -/
def InCell (m : Mat3) (v : Vec3) : Prop :=
  let f := m.frac v
  (0 ≤ f.x ∧ f.x < 1) ∧ (0 ≤ f.y ∧ f.y < 1) ∧ (0 ≤ f.z ∧ f.z < 1)

instance (m : Mat3) (v : Vec3) : Decidable (InCell m v) := by unfold InCell; infer_instance

/-- the integer multipliers of the lattice vector by which `wrap` moves `v`: minus the floors of the
    fractional coordinates -/
def wrapShift (m : Mat3) (v : Vec3) : Int × Int × Int :=
  let f := m.frac v
  (-f.x.floor, -f.y.floor, -f.z.floor)

/-- **wrap_eq_shift**: `wrap v = v + (i·A + j·B + k·C)` with `(i, j, k) = wrapShift v` -/
theorem wrap_eq_shift (m : Mat3) (v : Vec3) (hd : m.det ≠ 0) :
    m.wrap v = Vec3.add v (m.lattice ((wrapShift m v).1 : Int) ((wrapShift m v).2.1 : Int) ((wrapShift m v).2.2 : Int)) := by
  have h := cart_shift m (m.frac v) ((-(m.frac v).x.floor : Int) : Rat) ((-(m.frac v).y.floor : Int) : Rat)
    ((-(m.frac v).z.floor : Int) : Rat)
  rw [cart_frac m v hd] at h
  simp only [Mat3.wrap, wrapShift, fracPart_eq_add_int]
  exact h

/-- the fractional coordinates of the wrapped point are the fractional parts -/
theorem frac_wrap (m : Mat3) (v : Vec3) (hd : m.det ≠ 0) :
    m.frac (m.wrap v) = ⟨fracPart (m.frac v).x, fracPart (m.frac v).y, fracPart (m.frac v).z⟩ := by
  simp only [Mat3.wrap]
  rw [frac_cart m _ hd]

theorem wrap_inCell (m : Mat3) (v : Vec3) (hd : m.det ≠ 0) : InCell m (m.wrap v) := by
  unfold InCell
  rw [frac_wrap m v hd]
  exact ⟨fracPart_range _, fracPart_range _, fracPart_range _⟩

/-- a point inside the cell is not moved -/
theorem wrap_of_inCell (m : Mat3) (v : Vec3) (hd : m.det ≠ 0) (h : InCell m v) : m.wrap v = v := by
  obtain ⟨⟨hx0, hx1⟩, ⟨hy0, hy1⟩, ⟨hz0, hz1⟩⟩ := h
  simp only [Mat3.wrap]
  rw [fracPart_id_of_range _ hx0 hx1, fracPart_id_of_range _ hy0 hy1, fracPart_id_of_range _ hz0 hz1]
  exact cart_frac m v hd

/-- wrapping twice is wrapping once -/
theorem wrap_idem (m : Mat3) (v : Vec3) (hd : m.det ≠ 0) : m.wrap (m.wrap v) = m.wrap v :=
  wrap_of_inCell m _ hd (wrap_inCell m v hd)

/-- lattice translates have the same wrap -/
theorem wrap_lattice_invariant (m : Mat3) (v : Vec3) (i j k : Int) (hd : m.det ≠ 0) :
    m.wrap (Vec3.add v (m.lattice i j k)) = m.wrap v := by
  have hfp : ∀ (x : Rat) (n : Int), fracPart (x + (n : Rat)) = fracPart x := by
    intro x n
    unfold fracPart
    have : (x + (n : Rat)).floor = x.floor + n := by
      apply Int.le_antisymm
      · have h2 := Rat.lt_floor_add_one x
        have : (x + (n : Rat)).floor < x.floor + n + 1 := by
          apply Rat.floor_lt_iff.mpr
          have h3 : ((x.floor + n + 1 : Int) : Rat) = ((x.floor + 1 : Int) : Rat) + (n : Rat) := by
            simp; ring
          rw [h3]; linarith
        omega
      · apply Rat.le_floor_iff.mpr
        have h1 := Rat.floor_le x
        have h3 : ((x.floor + n : Int) : Rat) = (x.floor : Rat) + (n : Rat) := by simp
        rw [h3]; linarith
    rw [this]
    simp
  simp only [Mat3.wrap]
  rw [frac_shift m v i j k hd]
  simp only [hfp]

end Mofun.C05
