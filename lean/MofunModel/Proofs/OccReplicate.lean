/-
  OccReplicate.lean — the spec-level occurrence set and supercells (C03 (f)).

  `FindInput.replicate inp a b c`: the a×b×c supercell (image number `t < a·b·c` ↦ multipliers `decodeImg b c t`, atom
  `i` of image `t` has index `t·N + i`; cell rows scaled).  Two unconditional theorems:
    * `rigid_replicate_lift` : every occurrence of the unit cell appears in the supercell once for EVERY image `m` in
      which its first atom can be placed (same rotation; the atoms are the images `n k + m` reduced modulo the
      supercell), and it folds back (`index % N`) onto the unit-cell atoms;
    * `rigid_replicate_fold` : every occurrence of the supercell folds onto an occurrence of the unit cell.
  The COUNT statement "a·b·c times as many atom groups" needs more: that different images give different atom
  groups and that an atom group of the unit cell has only one realisation — true when every width exceeds
  2·(diameter + 2·atol), false below (see the counterexample in Props/C03.lean).
-/
import MofunModel.Proofs.OccLemmas
import MofunModel.Proofs.FindCompleteMain
import Mathlib.Tactic.LinearCombination

namespace Mofun

/-! ### numbering of the images -/

/-- multipliers of image number `t` (x slowest) -/
def decodeImg (b c t : Nat) : Nat × Nat × Nat := (t / (b * c), (t / c) % b, t % c)

/-- number of the image with multipliers `(i, j, k)` -/
def encodeImg (b c : Nat) (m : Nat × Nat × Nat) : Nat := (m.1 * b + m.2.1) * c + m.2.2

theorem decode_encode (a b c : Nat) (m : Nat × Nat × Nat) (h1 : m.1 < a) (h2 : m.2.1 < b) (h3 : m.2.2 < c) :
    encodeImg b c m < a * b * c ∧ decodeImg b c (encodeImg b c m) = m := by
  obtain ⟨i, j, k⟩ := m
  simp only at h1 h2 h3
  have hc : 0 < c := by omega
  have hb : 0 < b := by omega
  unfold encodeImg decodeImg
  simp only
  have e1 : ((i * b + j) * c + k) / c = i * b + j := by
    rw [Nat.add_comm, Nat.add_mul_div_right _ _ hc, Nat.div_eq_of_lt h3]; omega
  have e2 : ((i * b + j) * c + k) % c = k := by
    rw [Nat.add_comm, Nat.add_mul_mod_self_right]; exact Nat.mod_eq_of_lt h3
  have e4 : (i * b + j) / b = i := by
    rw [Nat.add_comm, Nat.add_mul_div_right _ _ hb, Nat.div_eq_of_lt h2]; omega
  have e5 : (i * b + j) % b = j := by
    rw [Nat.add_comm, Nat.add_mul_mod_self_right]; exact Nat.mod_eq_of_lt h2
  have e3 : ((i * b + j) * c + k) / (b * c) = i := by
    rw [Nat.mul_comm b c, ← Nat.div_div_eq_div_mul, e1, e4]
  refine ⟨?_, by rw [e3, e1, e5, e2]⟩
  have s1 : i * b + j + 1 ≤ a * b := by
    have : (i + 1) * b ≤ a * b := Nat.mul_le_mul_right b (by omega)
    rw [Nat.add_mul] at this; omega
  have s2 : (i * b + j + 1) * c ≤ a * b * c := Nat.mul_le_mul_right c s1
  rw [Nat.add_mul] at s2; omega

theorem decode_lt (a b c t : Nat) (ht : t < a * b * c) :
    (decodeImg b c t).1 < a ∧ (decodeImg b c t).2.1 < b ∧ (decodeImg b c t).2.2 < c := by
  have hc : 0 < c := by
    rcases Nat.eq_zero_or_pos c with h | h
    · subst h; simp at ht
    · exact h
  have hb : 0 < b := by
    rcases Nat.eq_zero_or_pos b with h | h
    · subst h; simp at ht
    · exact h
  unfold decodeImg
  refine ⟨?_, Nat.mod_lt _ hb, Nat.mod_lt _ hc⟩
  apply Nat.div_lt_of_lt_mul
  rw [Nat.mul_comm (b * c) a, ← Nat.mul_assoc]; exact ht

/-! ### the supercell -/

def imgVec (cell : Mat3) (m : Nat × Nat × Nat) : Vec3 := cell.lattice (m.1 : Rat) (m.2.1 : Rat) (m.2.2 : Rat)

/-- the a×b×c supercell of a structure (pattern and tolerance unchanged): image number `t` holds a copy of every
    atom moved by the lattice vector `decodeImg b c t`; atom `i` of image `t` has index `t·N + i` -/
def FindInput.replicate (inp : FindInput) (a b c : Nat) : FindInput :=
  { inp with
    elems := (List.range (a * b * c)).flatMap (fun _ => inp.elems.map (fun e => e)),
    pos := (List.range (a * b * c)).flatMap (fun t => inp.pos.map (fun p => Vec3.add p (imgVec inp.cell (decodeImg b c t)))),
    cell := inp.cell.scaleRows a b c }

theorem getD_range (n t d : Nat) (h : t < n) : (List.range n).getD t d = t := by
  simp [List.getD_eq_getElem?_getD, h]

theorem replicate_pos_length (inp : FindInput) (a b c : Nat) :
    (inp.replicate a b c).pos.length = a * b * c * inp.pos.length := by
  unfold FindInput.replicate
  simp only
  rw [length_flatMap_map2 (fun t p => Vec3.add p (imgVec inp.cell (decodeImg b c t))) inp.pos]
  simp

theorem replicate_pos_getD (inp : FindInput) (a b c t g : Nat) (ht : t < a * b * c) (hg : g < inp.pos.length) :
    (inp.replicate a b c).pos.getD (t * inp.pos.length + g) Vec3.zero
      = Vec3.add (inp.pos.getD g Vec3.zero) (imgVec inp.cell (decodeImg b c t)) := by
  unfold FindInput.replicate
  simp only
  rw [getD_flatMap_map2 (fun t p => Vec3.add p (imgVec inp.cell (decodeImg b c t))) inp.pos Vec3.zero Vec3.zero 0
    (List.range (a * b * c)) t g (by simpa using ht) hg, getD_range _ _ _ ht]

theorem replicate_elems_getD (inp : FindInput) (a b c t g : Nat) (ht : t < a * b * c) (hg : g < inp.elems.length) :
    (inp.replicate a b c).elems.getD (t * inp.elems.length + g) "" = inp.elems.getD g "" := by
  unfold FindInput.replicate
  simp only
  rw [getD_flatMap_map2 (fun (_ : Nat) (e : String) => e) inp.elems "" "" 0
    (List.range (a * b * c)) t g (by simpa using ht) hg]

theorem scaleRows_lattice (cell : Mat3) (a b c i j k : Rat) :
    (cell.scaleRows a b c).lattice i j k = cell.lattice (i * a) (j * b) (k * c) := by
  unfold Mat3.scaleRows Mat3.lattice Vec3.add Vec3.smul
  simp only [Vec3.mk.injEq]
  refine ⟨by ring, by ring, by ring⟩

/-- position of image `n'` (supercell multipliers) of supercell atom `t·N + g` in unit-cell terms -/
theorem replicate_imagePos (inp : FindInput) (a b c t g : Nat) (ht : t < a * b * c) (hg : g < inp.pos.length)
    (n' : Int × Int × Int) :
    imagePos (inp.replicate a b c) (t * inp.pos.length + g) n'
      = Vec3.add (inp.pos.getD g Vec3.zero)
          (inp.cell.lattice ((n'.1 : Rat) * a + ((decodeImg b c t).1 : Rat)) ((n'.2.1 : Rat) * b + ((decodeImg b c t).2.1 : Rat))
            ((n'.2.2 : Rat) * c + ((decodeImg b c t).2.2 : Rat))) := by
  unfold imagePos
  rw [replicate_pos_getD inp a b c t g ht hg]
  have : (inp.replicate a b c).cell = inp.cell.scaleRows a b c := rfl
  rw [this, scaleRows_lattice]
  unfold imgVec Mat3.lattice Vec3.add Vec3.smul
  simp only [Vec3.mk.injEq]
  refine ⟨by ring, by ring, by ring⟩

/-! ### folding a supercell occurrence onto the unit cell -/

theorem distSq_shift_both (Q Y c : Vec3) : distSq (Vec3.add Q ⟨-c.x, -c.y, -c.z⟩) Y = distSq Q (Vec3.add Y c) := by
  unfold distSq Vec3.normSq Vec3.dot Vec3.sub Vec3.add; simp only; ring

/-- the unit-cell image vectors of a folded supercell occurrence: supercell image `n' k` times the replication factors
    plus the image number of the supercell atom, relative to the first atom -/
def foldImg (a b c N : Nat) (g' : Nat → Nat) (n' : Nat → Int × Int × Int) (k : Nat) : Int × Int × Int :=
  ((n' k).1 * a + (decodeImg b c (g' k / N)).1 - (decodeImg b c (g' 0 / N)).1,
   (n' k).2.1 * b + (decodeImg b c (g' k / N)).2.1 - (decodeImg b c (g' 0 / N)).2.1,
   (n' k).2.2 * c + (decodeImg b c (g' k / N)).2.2 - (decodeImg b c (g' 0 / N)).2.2)

/-- **fold.** Every occurrence of the supercell is an occurrence of the unit cell after folding the atom indices
    with `% N` (same rotation; the image vectors are recomputed from the supercell images). -/
theorem rigid_replicate_fold_explicit (inp : FindInput) (a b c : Nat) (hlen : inp.elems.length = inp.pos.length)
    (epsSq : Rat) (g' : Nat → Nat) (n' : Nat → Int × Int × Int) (h : RigidOccurrence (inp.replicate a b c) epsSq g' n') :
    RigidOccurrence inp epsSq (fun k => g' k % inp.pos.length) (foldImg a b c inp.pos.length g' n') := by
  let N := inp.pos.length
  have hpp : (inp.replicate a b c).ppos = inp.ppos := rfl
  have hidx : ∀ k, k < inp.ppos.length → g' k < a * b * c * N := by
    intro k hk
    have := h.idx_lt k (by rw [hpp]; exact hk)
    rw [replicate_pos_length] at this; exact this
  -- decomposition of the supercell index
  have hdec : ∀ k, k < inp.ppos.length →
      0 < N ∧ g' k / N < a * b * c ∧ g' k % N < N ∧ g' k = g' k / N * N + g' k % N := by
    intro k hk
    have hlt := hidx k hk
    have hN : 0 < N := by
      rcases Nat.eq_zero_or_pos N with h0 | h0
      · rw [h0] at hlt; simp at hlt
      · exact h0
    refine ⟨hN, ?_, Nat.mod_lt _ hN, ?_⟩
    · exact Nat.div_lt_of_lt_mul (by rw [Nat.mul_comm]; exact hlt)
    · have := Nat.div_add_mod (g' k) N
      rw [Nat.mul_comm] at this; omega
  let r : Nat → Nat × Nat × Nat := fun k => decodeImg b c (g' k / N)
  let n : Nat → Int × Int × Int := fun k =>
    ((n' k).1 * a + (r k).1 - (r 0).1, (n' k).2.1 * b + (r k).2.1 - (r 0).2.1, (n' k).2.2 * c + (r k).2.2 - (r 0).2.2)
  rcases h.fit with ⟨R, t, hR, hfit⟩
  show RigidOccurrence inp epsSq (fun k => g' k % inp.pos.length) n
  refine
    { idx_lt := fun k hk => (hdec k hk).2.2.1
      home := by
        have h0 := h.home
        simp only [n, h0]
        simp
      elem := fun k hk => by
        have hd := hdec k hk
        have he := h.elem k (by rw [hpp]; exact hk)
        have hpe : (inp.replicate a b c).pelems = inp.pelems := rfl
        rw [hpe] at he
        rw [← he]
        have hgk : g' k = g' k / N * inp.elems.length + g' k % N := by rw [hlen]; exact hd.2.2.2
        conv => rhs; rw [hgk]
        rw [replicate_elems_getD inp a b c _ _ hd.2.1 (by rw [hlen]; exact hd.2.2.1)]
      fit := ⟨R, Vec3.add t ⟨-(imgVec inp.cell (r 0)).x, -(imgVec inp.cell (r 0)).y, -(imgVec inp.cell (r 0)).z⟩, hR,
        fun k hk => ?_⟩ }
  have hd := hdec k hk
  have hf := hfit k (by rw [hpp]; exact hk)
  rw [hpp] at hf
  have himg : imagePos (inp.replicate a b c) (g' k) (n' k)
      = Vec3.add (imagePos inp (g' k % N) (n k)) (imgVec inp.cell (r 0)) := by
    conv => lhs; rw [hd.2.2.2]
    rw [replicate_imagePos inp a b c _ _ hd.2.1 hd.2.2.1]
    unfold imagePos imgVec Mat3.lattice Vec3.add Vec3.smul
    simp only [n, r, Vec3.mk.injEq]
    push_cast
    refine ⟨by ring, by ring, by ring⟩
  rw [himg] at hf
  rw [← add_assoc3, distSq_shift_both]
  exact hf

theorem rigid_replicate_fold (inp : FindInput) (a b c : Nat) (hlen : inp.elems.length = inp.pos.length) (epsSq : Rat)
    (g' : Nat → Nat) (n' : Nat → Int × Int × Int) (h : RigidOccurrence (inp.replicate a b c) epsSq g' n') :
    ∃ n, RigidOccurrence inp epsSq (fun k => g' k % inp.pos.length) n :=
  ⟨_, rigid_replicate_fold_explicit inp a b c hlen epsSq g' n' h⟩

/-! ### lifting a unit-cell occurrence into the supercell, once per image -/

/-- integer division of an image multiplier by a replication factor: quotient (supercell image) and remainder
    (image number inside the supercell) -/
theorem int_split (v : Int) (a : Nat) (ha : 0 < a) :
    (v : Rat) = ((v / (a : Int) : Int) : Rat) * (a : Rat) + (((v % (a : Int)).toNat : Nat) : Rat) ∧
    (v % (a : Int)).toNat < a := by
  have hne : (a : Int) ≠ 0 := by omega
  have hnn : 0 ≤ v % (a : Int) := Int.emod_nonneg v hne
  have hlt : v % (a : Int) < (a : Int) := Int.emod_lt_of_pos v (by omega)
  have e : (a : Int) * (v / (a : Int)) + v % (a : Int) = v := Int.mul_ediv_add_emod v a
  have ecast : (((v % (a : Int)).toNat : Nat) : Int) = v % (a : Int) := Int.toNat_of_nonneg hnn
  constructor
  · have e2 : (v : Int) = (v / (a : Int)) * (a : Int) + (((v % (a : Int)).toNat : Nat) : Int) := by
      rw [ecast]; rw [Int.mul_comm]; exact e.symm
    exact_mod_cast e2
  · have : (((v % (a : Int)).toNat : Nat) : Int) < (a : Int) := by rw [ecast]; exact hlt
    exact_mod_cast this

/-- image number inside the supercell of the lifted atom `k` (first atom placed in image `m`) -/
def liftRem (a b c : Nat) (n : Nat → Int × Int × Int) (m : Nat × Nat × Nat) (k : Nat) : Nat × Nat × Nat :=
  ((((n k).1 + m.1) % (a : Int)).toNat, (((n k).2.1 + m.2.1) % (b : Int)).toNat, (((n k).2.2 + m.2.2) % (c : Int)).toNat)

/-- supercell image of the lifted atom `k` -/
def liftImg (a b c : Nat) (n : Nat → Int × Int × Int) (m : Nat × Nat × Nat) (k : Nat) : Int × Int × Int :=
  (((n k).1 + m.1) / (a : Int), ((n k).2.1 + m.2.1) / (b : Int), ((n k).2.2 + m.2.2) / (c : Int))

/-- supercell atom index of the lifted atom `k` -/
def liftIdx (inp : FindInput) (a b c : Nat) (g : Nat → Nat) (n : Nat → Int × Int × Int) (m : Nat × Nat × Nat) (k : Nat) : Nat :=
  encodeImg b c (liftRem a b c n m k) * inp.pos.length + g k

/-- **lift.** Every occurrence `(g, n)` of the unit cell occurs in the supercell with its first atom in ANY chosen
    image `m` of the box (`m.1 < a`, `m.2.1 < b`, `m.2.2 < c`): the supercell atoms are the images `n k + m` reduced
    modulo the supercell; they fold back onto `g` (`% N`) and the first one is atom `g 0` of image `m`. -/
theorem rigid_replicate_lift_explicit (inp : FindInput) (a b c : Nat) (hlen : inp.elems.length = inp.pos.length)
    (epsSq : Rat) (g : Nat → Nat) (n : Nat → Int × Int × Int) (h : RigidOccurrence inp epsSq g n)
    (m : Nat × Nat × Nat) (h1 : m.1 < a) (h2 : m.2.1 < b) (h3 : m.2.2 < c) :
    RigidOccurrence (inp.replicate a b c) epsSq (liftIdx inp a b c g n m) (liftImg a b c n m) ∧
      (∀ k, k < inp.ppos.length → liftIdx inp a b c g n m k % inp.pos.length = g k) ∧
      liftIdx inp a b c g n m 0 = encodeImg b c m * inp.pos.length + g 0 := by
  let N := inp.pos.length
  have ha : 0 < a := by omega
  have hb : 0 < b := by omega
  have hc : 0 < c := by omega
  let v : Nat → Int × Int × Int := fun k => ((n k).1 + m.1, (n k).2.1 + m.2.1, (n k).2.2 + m.2.2)
  let r : Nat → Nat × Nat × Nat := fun k =>
    (((v k).1 % (a : Int)).toNat, ((v k).2.1 % (b : Int)).toNat, ((v k).2.2 % (c : Int)).toNat)
  let q : Nat → Int × Int × Int := fun k => ((v k).1 / (a : Int), (v k).2.1 / (b : Int), (v k).2.2 / (c : Int))
  let g' : Nat → Nat := fun k => encodeImg b c (r k) * N + g k
  have hsx := fun k => int_split (v k).1 a ha
  have hsy := fun k => int_split (v k).2.1 b hb
  have hsz := fun k => int_split (v k).2.2 c hc
  have henc := fun k => decode_encode a b c (r k) (hsx k).2 (hsy k).2 (hsz k).2
  have hpp : (inp.replicate a b c).ppos = inp.ppos := rfl
  rcases h.fit with ⟨R, t, hR, hfit⟩
  -- the first atom: n 0 = 0, so v 0 = m, quotient 0, remainder m
  have hv0 : v 0 = ((m.1 : Int), (m.2.1 : Int), (m.2.2 : Int)) := by
    simp only [v, h.home]; simp
  have hq0 : q 0 = (0, 0, 0) := by
    simp only [q, hv0]
    rw [Int.ediv_eq_zero_of_lt (by omega) (by omega), Int.ediv_eq_zero_of_lt (by omega) (by omega),
      Int.ediv_eq_zero_of_lt (by omega) (by omega)]
  have hr0 : r 0 = m := by
    simp only [r, hv0]
    rw [Int.emod_eq_of_lt (by omega) (by omega), Int.emod_eq_of_lt (by omega) (by omega),
      Int.emod_eq_of_lt (by omega) (by omega)]
    simp
  show RigidOccurrence (inp.replicate a b c) epsSq g' q ∧ (∀ k, k < inp.ppos.length → g' k % inp.pos.length = g k) ∧
      g' 0 = encodeImg b c m * inp.pos.length + g 0
  refine ⟨?_, ?_, ?_⟩
  · refine
      { idx_lt := fun k hk => by
          rw [hpp] at hk
          rw [replicate_pos_length]
          have hg := h.idx_lt k hk
          have he := (henc k).1
          have : (encodeImg b c (r k) + 1) * N ≤ a * b * c * N := Nat.mul_le_mul_right N (by omega)
          rw [Nat.add_mul] at this
          show encodeImg b c (r k) * N + g k < a * b * c * N
          omega
        home := hq0
        elem := fun k hk => by
          rw [hpp] at hk
          have hg := h.idx_lt k hk
          have hpe : (inp.replicate a b c).pelems = inp.pelems := rfl
          rw [hpe, ← h.elem k hk]
          show (inp.replicate a b c).elems.getD (encodeImg b c (r k) * N + g k) "" = _
          have : encodeImg b c (r k) * N + g k = encodeImg b c (r k) * inp.elems.length + g k := by rw [hlen]
          rw [this, replicate_elems_getD inp a b c _ _ (henc k).1 (by rw [hlen]; exact hg)]
        fit := ⟨R, Vec3.add t (imgVec inp.cell m), hR, fun k hk => ?_⟩ }
    rw [hpp] at hk ⊢
    have hg := h.idx_lt k hk
    have himg : imagePos (inp.replicate a b c) (g' k) (q k)
        = Vec3.add (imagePos inp (g k) (n k)) (imgVec inp.cell m) := by
      show imagePos (inp.replicate a b c) (encodeImg b c (r k) * N + g k) (q k) = _
      rw [replicate_imagePos inp a b c _ _ (henc k).1 hg, (henc k).2]
      have ex := (hsx k).1
      have ey := (hsy k).1
      have ez := (hsz k).1
      unfold imagePos imgVec Mat3.lattice Vec3.add Vec3.smul
      simp only [Vec3.mk.injEq]
      simp only [v, q, r] at ex ey ez ⊢
      push_cast at ex ey ez ⊢
      refine ⟨?_, ?_, ?_⟩
      · linear_combination (-(inp.cell.a.x)) * ex - inp.cell.b.x * ey - inp.cell.c.x * ez
      · linear_combination (-(inp.cell.a.y)) * ex - inp.cell.b.y * ey - inp.cell.c.y * ez
      · linear_combination (-(inp.cell.a.z)) * ex - inp.cell.b.z * ey - inp.cell.c.z * ez
    rw [himg, ← add_assoc3, distSq_add_right]
    exact hfit k hk
  · intro k hk
    show (encodeImg b c (r k) * N + g k) % N = g k
    rw [Nat.mul_comm, Nat.mul_add_mod]; exact Nat.mod_eq_of_lt (h.idx_lt k hk)
  · show encodeImg b c (r 0) * N + g 0 = _
    rw [hr0]

theorem rigid_replicate_lift (inp : FindInput) (a b c : Nat) (hlen : inp.elems.length = inp.pos.length) (epsSq : Rat)
    (g : Nat → Nat) (n : Nat → Int × Int × Int) (h : RigidOccurrence inp epsSq g n)
    (m : Nat × Nat × Nat) (h1 : m.1 < a) (h2 : m.2.1 < b) (h3 : m.2.2 < c) :
    ∃ g' n', RigidOccurrence (inp.replicate a b c) epsSq g' n' ∧
      (∀ k, k < inp.ppos.length → g' k % inp.pos.length = g k) ∧
      g' 0 = encodeImg b c m * inp.pos.length + g 0 :=
  ⟨_, _, rigid_replicate_lift_explicit inp a b c hlen epsSq g n h m h1 h2 h3⟩

/-- the image numbering is injective -/
theorem encode_decode (b c t : Nat) : encodeImg b c (decodeImg b c t) = t := by
  unfold encodeImg decodeImg
  simp only
  have e1 : t / (b * c) = t / c / b := by rw [Nat.mul_comm b c, Nat.div_div_eq_div_mul]
  rw [e1]
  have h1 := Nat.div_add_mod (t / c) b
  have h2 := Nat.div_add_mod t c
  have h3 : t / c / b * b + t / c % b = t / c := by rw [Nat.mul_comm]; exact h1
  rw [h3, Nat.mul_comm]; exact h2

theorem decode_inj (b c t t' : Nat) (h : decodeImg b c t = decodeImg b c t') : t = t' := by
  rw [← encode_decode b c t, ← encode_decode b c t', h]

end Mofun
