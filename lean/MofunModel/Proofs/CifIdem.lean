/-
  CifIdem.lean — fixed point of write + read (C15, stretch): `normCif (normCif a) = normCif a` and the block-level
  idempotence of writing.  Numeric part: multiples of 10⁻⁴ print as themselves, the wrap keeps them, `frac ∘ cart = id`.
-/
import MofunModel.Proofs.CifRoundtrip
import Mathlib.Tactic.FieldSimp
namespace Mofun.Cif
open Mofun

theorem frac_cart (m : Mat3) (f : Vec3) (hd : m.det ≠ 0) : m.frac (m.cart f) = f := by
  obtain ⟨fx, fy, fz⟩ := f
  obtain ⟨⟨ax, ay, az⟩, ⟨bx, by', bz⟩, ⟨cx, cy, cz⟩⟩ := m
  simp only [Mat3.det, Vec3.dot, Vec3.cross] at hd
  simp only [Mat3.frac, Mat3.cart, Mat3.lattice, Vec3.add, Vec3.smul, Vec3.dot, Vec3.cross, Mat3.det, Vec3.mk.injEq]
  refine ⟨?_, ?_, ?_⟩ <;> (rw [div_eq_iff hd]; ring)

theorem roundHalfEven_nat (n : Nat) : roundHalfEven (n : Rat) = n := by
  unfold roundHalfEven
  have hf : (n : Rat).floor = n := by rw [rat_floor_eq]; exact Int.floor_natCast n
  simp [hf]

theorem fix4_of_nat (n : Nat) : fix4 ((n : Rat) / 10000) = (n : Rat) / 10000 := by
  unfold fix4 fix4i mag4
  have hx : ¬ (n : Rat) / 10000 < 0 := by
    have : (0 : Rat) ≤ n := Nat.cast_nonneg n
    intro h; linarith
  have hmul : (n : Rat) / 10000 * 10000 = (n : Rat) := by ring
  simp only [hx, if_false, hmul, roundHalfEven_nat]
  push_cast; rfl

theorem fix4_of_neg_nat (n : Nat) : fix4 (-(n : Rat) / 10000) = -(n : Rat) / 10000 := by
  by_cases hn : n = 0
  · subst hn; simpa using fix4_of_nat 0
  · unfold fix4 fix4i mag4
    have hpos : (0 : Rat) < n := by exact_mod_cast Nat.pos_of_ne_zero hn
    have hx : -(n : Rat) / 10000 < 0 := by linarith
    have hmul : -(-(n : Rat) / 10000) * 10000 = (n : Rat) := by ring
    simp only [hx, if_true, hmul, roundHalfEven_nat]
    push_cast; rfl

/-- a multiple of 10⁻⁴ prints as itself -/
theorem fix4_of_int (k : Int) : fix4 ((k : Rat) / 10000) = (k : Rat) / 10000 := by
  obtain ⟨n, rfl | rfl⟩ := Int.eq_nat_or_neg k
  · simpa using fix4_of_nat n
  · simpa using fix4_of_neg_nat n

theorem fix4_fix4 (x : Rat) : fix4 (fix4 x) = fix4 x := by
  have : fix4 x = ((fix4i x : Int) : Rat) / 10000 := rfl
  rw [this, fix4_of_int]

/-- the wrap of a multiple of 10⁻⁴ is again one -/
theorem fracPart_of_int (k : Int) : fracPart ((k : Rat) / 10000) = ((k % 10000 : Int) : Rat) / 10000 := by
  unfold fracPart
  have hf : ((k : Rat) / 10000).floor = k / 10000 := by
    rw [rat_floor_eq]
    have := Rat.floor_intCast_div_natCast k 10000
    simpa using this
  rw [hf]
  have : (k % 10000 : Int) = k - 10000 * (k / 10000) := by omega
  rw [this]; push_cast; ring

theorem fix4_fracPart_fix4 (x : Rat) : fix4 (fracPart (fix4 x)) = fracPart (fix4 x) := by
  have : fix4 x = ((fix4i x : Int) : Rat) / 10000 := rfl
  rw [this, fracPart_of_int, fix4_of_int]

theorem fracPart_fracPart (x : Rat) : fracPart (fracPart x) = fracPart x := by
  have h0 := fracPart_nonneg x
  have h1 := fracPart_lt_one x
  have : (fracPart x).floor = 0 := by
    rw [rat_floor_eq, Int.floor_eq_iff]; constructor <;> simp [h0, h1]
  have e : fracPart (fracPart x) = fracPart x - ((fracPart x).floor : Rat) := rfl
  rw [e, this]; simp
theorem toLower_of_not (c : Char) (h : ¬ (c.val ≥ 'A'.val ∧ c.val ≤ 'Z'.val)) : c.toLower = c := by
  unfold Char.toLower; rw [dif_neg h]

theorem char_toLower_idem (c : Char) : c.toLower.toLower = c.toLower := by
  by_cases h : c.val ≥ 'A'.val ∧ c.val ≤ 'Z'.val
  · apply toLower_of_not
    have h1 : c.toLower.val = c.val + ('a'.val - 'A'.val) := by
      unfold Char.toLower; rw [dif_pos h]
    rw [h1]
    have ha : 'A'.val = 65 := rfl
    have hz : 'Z'.val = 90 := rfl
    have hl : 'a'.val = 97 := rfl
    rw [ha, hz] at h ⊢
    rw [hl]
    simp only [ge_iff_le, UInt32.le_iff_toNat_le, UInt32.toNat_add, UInt32.toNat_sub] at h ⊢
    simp at h ⊢
    omega
  · rw [toLower_of_not c h]; exact toLower_of_not c h

theorem lc_idem (s : String) : lc (lc s) = lc s := by
  unfold lc String.toLower
  rw [String.map_map]
  congr 1
  funext c
  exact char_toLower_idem c


theorem renumber_idem (ts : List Term) : renumber (renumber ts) = renumber ts := by
  unfold renumber
  apply List.ext_getElem
  · simp
  · intro i h1 h2; simp

theorem normTable_idem (ts : List Term) (xl : List String) :
    normTable (normTable ts xl).terms (normTable ts xl).xlabels = normTable ts xl := by
  cases ts with
  | nil => rfl
  | cons t ts =>
    have hne : renumber (t :: ts) ≠ [] := by simp [renumber]
    have e := normTable_cons (t :: ts) xl (by simp)
    rw [e]
    simp only
    rw [normTable_cons _ _ hne, renumber_idem, List.map_map]
    congr 1
    apply List.map_congr_left
    intro l _
    exact lc_idem l

theorem Atoms.ext' (x y : Atoms) (h1 : x.atoms = y.atoms) (h2 : x.bonds = y.bonds) (h3 : x.angles = y.angles)
    (h4 : x.dihedrals = y.dihedrals) (h5 : x.impropers = y.impropers) (h6 : x.typeElems = y.typeElems)
    (h7 : x.typeLabels = y.typeLabels) (h8 : x.typeMasses = y.typeMasses) (h9 : x.pairCoeffs = y.pairCoeffs)
    (h10 : x.xlabels = y.xlabels) (h11 : x.cell = y.cell) : x = y := by
  cases x; cases y; simp_all

theorem elemOf_norm (a : Atoms) (r : AtomRow) (hr : r ∈ a.atoms) :
    (dedup (elementsOf a)).getD ((indexOf? (dedup (elementsOf a)) (elemOf a r)).getD 0) "" = elemOf a r := by
  have hm : elemOf a r ∈ dedup (elementsOf a) := (mem_dedup _ _).mpr (List.mem_map.mpr ⟨r, hr, rfl⟩)
  cases h : indexOf? (dedup (elementsOf a)) (elemOf a r) with
  | none => exact absurd hm ((indexOf?_none_iff _ _).mp h)
  | some j =>
    obtain ⟨hj, e⟩ := indexOf?_lt _ _ _ h
    simp [List.getD, List.getElem?_eq_getElem hj, e]

theorem elementsOf_norm (env : Env) (lenv : LoadEnv) (a : Atoms) (fr : Bool) :
    elementsOf (normCif env lenv a fr) = elementsOf a := by
  simp only [elementsOf, normCif, List.map_map]
  apply List.map_congr_left
  intro r hr
  simp only [Function.comp_apply, elemOf]
  exact elemOf_norm a r hr

theorem wrap3_fix4v_idem (f : Vec3) : wrap3 (fix4v (wrap3 (fix4v f))) = wrap3 (fix4v f) := by
  simp only [wrap3, fix4v, fix4_fracPart_fix4, fracPart_fracPart]

theorem fix4v_idem (v : Vec3) : fix4v (fix4v v) = fix4v v := by
  simp only [fix4v, fix4_fix4]

/-- the position `normCif` gives an atom (same case analysis as in `normCif`) -/
def normPos (fr : Bool) (cell cell' : Option Mat3) (p : Vec3) : Vec3 :=
  match fr, cell, cell' with
  | true, some c, some c' => c'.cart (wrap3 (fix4v (c.frac p)))
  | _, _, _ => fix4v p

theorem normCif_atoms (env : Env) (lenv : LoadEnv) (a : Atoms) (fr : Bool) :
    (normCif env lenv a fr).atoms = a.atoms.map (fun r =>
      ({ ty := (indexOf? (dedup (elementsOf a)) (elemOf a r)).getD 0,
         pos := normPos fr a.cell (normCif env lenv a fr).cell r.pos, charge := r.charge, group := 0, extra := r.extra } : AtomRow)) := by
  rfl

theorem normPos_idem (fr : Bool) (cell cell' : Option Mat3) (p : Vec3)
    (h1 : cell = none → cell' = none) (h2 : ∀ c, cell = some c → ∃ c', cell' = some c' ∧ c'.det ≠ 0) :
    normPos fr cell' cell' (normPos fr cell cell' p) = normPos fr cell cell' p := by
  cases fr with
  | false => simp only [normPos, fix4v_idem]
  | true =>
    cases hc : cell with
    | none =>
      rw [h1 hc]
      simp only [normPos, fix4v_idem]
    | some c =>
      obtain ⟨c', hc', hd⟩ := h2 c hc
      rw [hc']
      simp only [normPos, frac_cart c' _ hd, wrap3_fix4v_idem]

/-- the result of one write + read is a fixed point of write + read, provided the opaque cell functions are stable on
    the re-read cell (re-reading the cell items written for the re-read cell gives that cell again) -/
theorem normCif_idem (env : Env) (lenv : LoadEnv) (a : Atoms) (fr : Bool)
    (hcell : ∀ c, a.cell = some c → (lenv.cellOf ((env.cellpar c).toList.map stripSu)).isSome = true)
    (hstable : ∀ c c', a.cell = some c → lenv.cellOf ((env.cellpar c).toList.map stripSu) = some c' →
      lenv.cellOf ((env.cellpar c').toList.map stripSu) = some c' ∧ c'.det ≠ 0) :
    normCif env lenv (normCif env lenv a fr) fr = normCif env lenv a fr := by
  have hels := elementsOf_norm env lenv a fr
  have hcellfix : (normCif env lenv (normCif env lenv a fr) fr).cell = (normCif env lenv a fr).cell := by
    show (match (match a.cell with
        | none => none
        | some c => lenv.cellOf ((env.cellpar c).toList.map stripSu)) with
        | none => none
        | some c => lenv.cellOf ((env.cellpar c).toList.map stripSu)) = (match a.cell with
        | none => none
        | some c => lenv.cellOf ((env.cellpar c).toList.map stripSu))
    cases hc : a.cell with
    | none => rfl
    | some c =>
      obtain ⟨c', hc'⟩ := Option.isSome_iff_exists.mp (hcell c hc)
      simp only [hc', (hstable c c' hc hc').1]
  apply Atoms.ext'
  · -- atoms
    rw [normCif_atoms env lenv (normCif env lenv a fr) fr, hcellfix, normCif_atoms env lenv a fr, List.map_map, hels]
    apply List.map_congr_left
    intro r hr
    have he : elemOf (normCif env lenv a fr)
        { ty := (indexOf? (dedup (elementsOf a)) (elemOf a r)).getD 0,
          pos := normPos fr a.cell (normCif env lenv a fr).cell r.pos, charge := r.charge, group := 0, extra := r.extra }
        = elemOf a r := elemOf_norm a r hr
    simp only [Function.comp_apply, he, AtomRow.mk.injEq, true_and, and_true]
    apply normPos_idem
    · intro hc
      show (match a.cell with
        | none => none
        | some c => lenv.cellOf ((env.cellpar c).toList.map stripSu)) = none
      rw [hc]
    · intro c hc
      obtain ⟨c', hc'⟩ := Option.isSome_iff_exists.mp (hcell c hc)
      refine ⟨c', ?_, (hstable c c' hc hc').2⟩
      show (match a.cell with
        | none => none
        | some c => lenv.cellOf ((env.cellpar c).toList.map stripSu)) = some c'
      rw [hc]; exact hc'
  · exact normTable_idem _ _
  · exact normTable_idem _ _
  · show normTable ((normTable _ _).terms ++ (TermTable.empty).terms.map _) (normTable _ _).xlabels = normTable _ _
    simp only [TermTable.empty, List.map_nil, List.append_nil]
    exact normTable_idem _ _
  · rfl
  · show dedup (elementsOf (normCif env lenv a fr)) = dedup (elementsOf a)
    rw [hels]
  · show dedup (elementsOf (normCif env lenv a fr)) = dedup (elementsOf a)
    rw [hels]
  · show (dedup (elementsOf (normCif env lenv a fr))).map _ = (dedup (elementsOf a)).map _
    rw [hels]
  · rfl
  · show ((a.xlabels.map lc).map lc) = a.xlabels.map lc
    rw [List.map_map]
    apply List.map_congr_left
    intro l _
    exact lc_idem l
  · exact hcellfix

theorem mem_normTable_xlabels (ts : List Term) (xl : List String) (l : String) (h : l ∈ (normTable ts xl).xlabels) :
    ∃ l0 ∈ xl, l = lc l0 := by
  cases ts with
  | nil => simp [normTable, TermTable.empty] at h
  | cons t ts =>
    rw [normTable_cons _ _ (by simp)] at h
    obtain ⟨l0, h0, e⟩ := List.mem_map.mp h
    exact ⟨l0, h0, e.symm⟩

theorem extraLabelsOk_norm (env : Env) (lenv : LoadEnv) (a : Atoms) (fr : Bool) (h : extraLabelsOk a = true) :
    extraLabelsOk (normCif env lenv a fr) = true := by
  unfold extraLabelsOk at h ⊢
  rw [List.all_eq_true] at h ⊢
  intro l hl
  have key : ∃ l0 ∈ a.xlabels ++ a.bonds.xlabels ++ a.angles.xlabels ++ a.dihedrals.xlabels, l = lc l0 := by
    simp only [List.mem_append] at hl
    rcases hl with ((hl | hl) | hl) | hl
    · obtain ⟨l0, h0, e⟩ := List.mem_map.mp (show l ∈ a.xlabels.map lc from hl)
      exact ⟨l0, by simp [h0], e.symm⟩
    · obtain ⟨l0, h0, e⟩ := mem_normTable_xlabels _ _ l hl
      exact ⟨l0, by simp [h0], e⟩
    · obtain ⟨l0, h0, e⟩ := mem_normTable_xlabels _ _ l hl
      exact ⟨l0, by simp [h0], e⟩
    · obtain ⟨l0, h0, e⟩ := mem_normTable_xlabels _ _ l hl
      exact ⟨l0, by simp [h0], e⟩
  obtain ⟨l0, h0, rfl⟩ := key
  rw [lc_idem]
  exact h l0 h0

/-- **idempotence of writing** (block level): the block written for a re-read structure is reproduced exactly by
    another read + write.  `hstable` is the assumption on the functions that are NOT modelled (cell parameters from
    vectors, their printing, and `cellpar_to_cell`): the cell items written for the re-read cell read back as that
    very cell, which is non-singular. -/
theorem cif_save_idempotent_aux (env : Env) (lenv : LoadEnv) (a a1 a2 : Atoms) (fr : Bool) (b1 b2 b3 : Block)
    (h1 : saveCif env a fr = .ok b1) (h2 : loadCif lenv b1 = .ok a1)
    (h3 : saveCif env a1 fr = .ok b2) (h4 : loadCif lenv b2 = .ok a2)
    (h5 : saveCif env a2 fr = .ok b3)
    (hlab : ∀ r ∈ a.atoms, endsWithDigit (elemOf a r) = false)
    (hextra : extraLabelsOk a = true)
    (hq : ∀ r ∈ a.atoms, tofloat (env.reprQ r.charge) = some r.charge)
    (hmass : ∀ r ∈ a.atoms, (lenv.massOf (elemOf a r)).isSome = true)
    (hcell : ∀ c, a.cell = some c → (lenv.cellOf ((env.cellpar c).toList.map stripSu)).isSome = true)
    (hstable : ∀ c c', a.cell = some c → lenv.cellOf ((env.cellpar c).toList.map stripSu) = some c' →
      lenv.cellOf ((env.cellpar c').toList.map stripSu) = some c' ∧ c'.det ≠ 0) :
    b3 = b2 ∧ a2 = a1 := by
  have e1 := cif_roundtrip_aux env lenv a fr b1 h1 hlab hextra hq hmass hcell
  rw [e1] at h2
  cases h2
  have hrow : ∀ r1 ∈ (normCif env lenv a fr).atoms, ∃ r ∈ a.atoms,
      elemOf (normCif env lenv a fr) r1 = elemOf a r ∧ r1.charge = r.charge := by
    intro r1 hr1
    rw [normCif_atoms] at hr1
    obtain ⟨r, hr, rfl⟩ := List.mem_map.mp hr1
    exact ⟨r, hr, elemOf_norm a r hr, rfl⟩
  have e2 := cif_roundtrip_aux env lenv (normCif env lenv a fr) fr b2 h3
    (by intro r1 hr1; obtain ⟨r, hr, e, _⟩ := hrow r1 hr1; rw [e]; exact hlab r hr)
    (extraLabelsOk_norm env lenv a fr hextra)
    (by intro r1 hr1; obtain ⟨r, hr, _, e⟩ := hrow r1 hr1; rw [e]; exact hq r hr)
    (by intro r1 hr1; obtain ⟨r, hr, e, _⟩ := hrow r1 hr1; rw [e]; exact hmass r hr)
    (by
      intro c1 hc1
      have hc1' : (match a.cell with
        | none => none
        | some c => lenv.cellOf ((env.cellpar c).toList.map stripSu)) = some c1 := hc1
      cases hc : a.cell with
      | none => rw [hc] at hc1'; cases hc1'
      | some c =>
        rw [hc] at hc1'
        rw [(hstable c c1 hc hc1').1]; rfl)
  rw [e2, normCif_idem env lenv a fr hcell hstable] at h4
  cases h4
  rw [h3] at h5
  cases h5
  exact ⟨rfl, rfl⟩

end Mofun.Cif
