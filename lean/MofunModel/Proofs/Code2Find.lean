/-
  Code2Find.lean — loops and insertion-ordered dicts of the generated `group_duplicates` (Generated/Code.lean) in the
  vocabulary of Model/Find.lean.  Core Lean only.
-/
import MofunModel.Generated.Code
import MofunModel.Model.Find

namespace Mofun.Code2Find
open Mofun Mofun.Generated

/-- a loop whose body never raises is a `foldl` -/
theorem forFoldM?_total {α σ} (xs : List α) (f : σ → α → Option σ) (g : σ → α → σ)
    (h : ∀ st x, f st x = some (g st x)) (st : σ) : Py.forFoldM? xs st f = some (xs.foldl g st) := by
  induction xs generalizing st with
  | nil => rfl
  | cons x xs ih => simp only [Py.forFoldM?, h, List.foldl_cons, ih]

/-- the step of the model's `groupBy` -/
def groupStep {α κ} [DecidableEq κ] (key : α → κ) (acc : List (κ × List α)) (x : α) : List (κ × List α) :=
  let k := key x
  if acc.any (fun p => p.1 = k) then acc.map (fun p => if p.1 = k then (p.1, p.2 ++ [x]) else p)
  else acc ++ [(k, [x])]

theorem groupBy_eq_foldl {α κ} [DecidableEq κ] (key : α → κ) (l : List α) : groupBy key l = l.foldl (groupStep key) [] := rfl

/-- one round of `group_duplicates` (new key: `d[k] = [m]`; known key: `d[k].append(m)`) is one round of `groupBy`;
    the KeyError of `d[k]` is never raised -/
theorem group_step {α κ} [DecidableEq κ] (key : α → κ) (acc : List (κ × List α)) (x : α) :
    (if (!(Py.dictHas acc (key x))) then some (Py.dictSet acc (key x) [x]) else Py.dictAppend? acc (key x) x) =
      some (groupStep key acc x) := by
  unfold Py.dictSet Py.dictAppend? Py.dictHas groupStep
  cases h : acc.any (fun p => decide (p.1 = key x)) <;> simp [h]

/-- the same with the test written positively -/
theorem group_step' {α κ} [DecidableEq κ] (key : α → κ) (acc : List (κ × List α)) (x : α) :
    (if Py.dictHas acc (key x) then Py.dictAppend? acc (key x) x else some (Py.dictSet acc (key x) [x])) =
      some (groupStep key acc x) := by
  unfold Py.dictSet Py.dictAppend? Py.dictHas groupStep
  cases h : acc.any (fun p => decide (p.1 = key x)) <;> simp [h]

end Mofun.Code2Find
