import MofunModel.Proofs.QuatRealAxis
namespace Mofun.QuatH
open Mofun.Uff Mofun.Uff.ElemFun QNum

/-! ### 3×3 real matrices, proper rotations -/

structure M3 where
  a11 : ℝ
  a12 : ℝ
  a13 : ℝ
  a21 : ℝ
  a22 : ℝ
  a23 : ℝ
  a31 : ℝ
  a32 : ℝ
  a33 : ℝ

def M3.mulVec (M : M3) (v : V3 ℝ) : V3 ℝ :=
  ⟨M.a11 * v.x + M.a12 * v.y + M.a13 * v.z, M.a21 * v.x + M.a22 * v.y + M.a23 * v.z,
   M.a31 * v.x + M.a32 * v.y + M.a33 * v.z⟩

def M3.det (M : M3) : ℝ :=
  M.a11 * (M.a22 * M.a33 - M.a23 * M.a32) - M.a12 * (M.a21 * M.a33 - M.a23 * M.a31)
    + M.a13 * (M.a21 * M.a32 - M.a22 * M.a31)

/-- a proper rotation: orthogonal (`MᵀM = 1`) with determinant 1 -/
structure M3.IsProper (M : M3) : Prop where
  c11 : M.a11 * M.a11 + M.a21 * M.a21 + M.a31 * M.a31 = 1
  c22 : M.a12 * M.a12 + M.a22 * M.a22 + M.a32 * M.a32 = 1
  c33 : M.a13 * M.a13 + M.a23 * M.a23 + M.a33 * M.a33 = 1
  c12 : M.a11 * M.a12 + M.a21 * M.a22 + M.a31 * M.a32 = 0
  c13 : M.a11 * M.a13 + M.a21 * M.a23 + M.a31 * M.a33 = 0
  c23 : M.a12 * M.a13 + M.a22 * M.a23 + M.a32 * M.a33 = 0
  det1 : M.det = 1

/-- the matrix of `rotR q` -/
def rotMat (q : Q4 ℝ) : M3 :=
  ⟨q.w * q.w + q.x * q.x - q.y * q.y - q.z * q.z, 2 * (q.x * q.y - q.z * q.w), 2 * (q.x * q.z + q.y * q.w),
   2 * (q.x * q.y + q.z * q.w), q.w * q.w - q.x * q.x + q.y * q.y - q.z * q.z, 2 * (q.y * q.z - q.x * q.w),
   2 * (q.x * q.z - q.y * q.w), 2 * (q.y * q.z + q.x * q.w), q.w * q.w - q.x * q.x - q.y * q.y + q.z * q.z⟩

theorem rotR_eq_mulVec (q : Q4 ℝ) (v : V3 ℝ) : rotR q v = (rotMat q).mulVec v := rfl

/-- the rotation of a unit quaternion is a proper rotation -/
theorem rotMat_proper (q : Q4 ℝ) (h : Q4.normSq q = 1) : (rotMat q).IsProper := by
  obtain ⟨x, y, z, w⟩ := q
  unfold Q4.normSq at h
  simp only at h
  constructor <;> simp only [rotMat, M3.det]
  · linear_combination (x * x + y * y + z * z + w * w + 1) * h
  · linear_combination (x * x + y * y + z * z + w * w + 1) * h
  · linear_combination (x * x + y * y + z * z + w * w + 1) * h
  · ring
  · ring
  · ring
  · linear_combination ((x * x + y * y + z * z + w * w) ^ 2 + (x * x + y * y + z * z + w * w) + 1) * h

/-- a proper rotation preserves dot products -/
theorem proper_dot (M : M3) (h : M.IsProper) (u v : V3 ℝ) : V3.dot (M.mulVec u) (M.mulVec v) = V3.dot u v := by
  obtain ⟨c11, c22, c33, c12, c13, c23, _⟩ := h
  simp only [V3.dot, M3.mulVec]
  linear_combination (u.x * v.x) * c11 + (u.y * v.y) * c22 + (u.z * v.z) * c33 + (u.x * v.y + u.y * v.x) * c12
    + (u.x * v.z + u.z * v.x) * c13 + (u.y * v.z + u.z * v.y) * c23

/-- the cofactor matrix -/
def M3.cof (M : M3) : M3 :=
  ⟨M.a22 * M.a33 - M.a23 * M.a32, -(M.a21 * M.a33 - M.a23 * M.a31), M.a21 * M.a32 - M.a22 * M.a31,
   -(M.a12 * M.a33 - M.a13 * M.a32), M.a11 * M.a33 - M.a13 * M.a31, -(M.a11 * M.a32 - M.a12 * M.a31),
   M.a12 * M.a23 - M.a13 * M.a22, -(M.a11 * M.a23 - M.a13 * M.a21), M.a11 * M.a22 - M.a12 * M.a21⟩

theorem cross_mulVec (M : M3) (u v : V3 ℝ) :
    V3.cross (M.mulVec u) (M.mulVec v) = M.cof.mulVec (V3.cross u v) := by
  simp only [V3.cross, M3.mulVec, M3.cof, V3.mk.injEq]
  refine ⟨?_, ?_, ?_⟩ <;> ring

/-- for a proper rotation the cofactor matrix is the matrix itself -/
theorem proper_cof (M : M3) (h : M.IsProper) : M.cof = M := by
  obtain ⟨c11, c22, c33, c12, c13, c23, d⟩ := h
  obtain ⟨a11, a12, a13, a21, a22, a23, a31, a32, a33⟩ := M
  simp only [M3.det] at *
  simp only [M3.cof, M3.mk.injEq]
  refine ⟨?_, ?_, ?_, ?_, ?_, ?_, ?_, ?_, ?_⟩
  · linear_combination a11 * d - (a22 * a33 - a23 * a32) * c11 - (-(a21 * a33 - a23 * a31)) * c12 - (a21 * a32 - a22 * a31) * c13
  · linear_combination a12 * d - (a22 * a33 - a23 * a32) * c12 - (-(a21 * a33 - a23 * a31)) * c22 - (a21 * a32 - a22 * a31) * c23
  · linear_combination a13 * d - (a22 * a33 - a23 * a32) * c13 - (-(a21 * a33 - a23 * a31)) * c23 - (a21 * a32 - a22 * a31) * c33
  · linear_combination a21 * d - (-(a12 * a33 - a13 * a32)) * c11 - (a11 * a33 - a13 * a31) * c12 - (-(a11 * a32 - a12 * a31)) * c13
  · linear_combination a22 * d - (-(a12 * a33 - a13 * a32)) * c12 - (a11 * a33 - a13 * a31) * c22 - (-(a11 * a32 - a12 * a31)) * c23
  · linear_combination a23 * d - (-(a12 * a33 - a13 * a32)) * c13 - (a11 * a33 - a13 * a31) * c23 - (-(a11 * a32 - a12 * a31)) * c33
  · linear_combination a31 * d - (a12 * a23 - a13 * a22) * c11 - (-(a11 * a23 - a13 * a21)) * c12 - (a11 * a22 - a12 * a21) * c13
  · linear_combination a32 * d - (a12 * a23 - a13 * a22) * c12 - (-(a11 * a23 - a13 * a21)) * c22 - (a11 * a22 - a12 * a21) * c23
  · linear_combination a33 * d - (a12 * a23 - a13 * a22) * c13 - (-(a11 * a23 - a13 * a21)) * c23 - (a11 * a22 - a12 * a21) * c33


/-- a proper rotation preserves cross products -/
theorem proper_cross (M : M3) (h : M.IsProper) (u v : V3 ℝ) :
    M.mulVec (V3.cross u v) = V3.cross (M.mulVec u) (M.mulVec v) := by
  rw [cross_mulVec, proper_cof M h]

theorem mulVec_smul (M : M3) (t : ℝ) (v : V3 ℝ) : M.mulVec (V3.smul t v) = V3.smul t (M.mulVec v) := by
  simp only [M3.mulVec, V3.smul, V3.mk.injEq]; refine ⟨?_, ?_, ?_⟩ <;> ring

theorem mulVec_add (M : M3) (u v : V3 ℝ) : M.mulVec (V3.add u v) = V3.add (M.mulVec u) (M.mulVec v) := by
  simp only [M3.mulVec, V3.add, V3.mk.injEq]; refine ⟨?_, ?_, ?_⟩ <;> ring

theorem mulVec_sub (M : M3) (u v : V3 ℝ) : M.mulVec (V3.sub u v) = V3.sub (M.mulVec u) (M.mulVec v) := by
  simp only [M3.mulVec, V3.sub, V3.mk.injEq]; refine ⟨?_, ?_, ?_⟩ <;> ring

theorem mulVec_divs (M : M3) (v : V3 ℝ) (t : ℝ) : M.mulVec (V3.divs v t) = V3.divs (M.mulVec v) t := by
  simp only [M3.mulVec, V3.divs, V3.mk.injEq]; refine ⟨?_, ?_, ?_⟩ <;> ring

theorem mulVec_zero (M : M3) : M.mulVec ⟨0, 0, 0⟩ = ⟨0, 0, 0⟩ := by
  simp only [M3.mulVec, V3.mk.injEq]; refine ⟨?_, ?_, ?_⟩ <;> ring

/-- a proper rotation preserves lengths -/
theorem proper_norm (M : M3) (h : M.IsProper) (v : V3 ℝ) : V3.norm (M.mulVec v) = V3.norm v := by
  have := proper_dot M h v v
  unfold V3.dot at this
  rw [norm_real, norm_real, this]

theorem proper_unitOf (M : M3) (h : M.IsProper) (v : V3 ℝ) : M.mulVec (unitOf v) = unitOf (M.mulVec v) := by
  unfold unitOf; rw [mulVec_divs, proper_norm M h]

theorem proper_projectOff (M : M3) (h : M.IsProper) (p a : V3 ℝ) :
    M.mulVec (projectOff p a) = projectOff (M.mulVec p) (M.mulVec a) := by
  unfold projectOff
  rw [mulVec_sub, mulVec_smul, proper_dot M h, proper_dot M h]

/-- the rotation of a Hamilton product is the composition of the rotations (`p ⊗ q`: `q` first) -/
theorem rotR_compose (p q : Q4 ℝ) (v : V3 ℝ) : rotR (composeQuat p q) v = rotR p (rotR q v) := by
  obtain ⟨px, py, pz, pw⟩ := p
  obtain ⟨qx, qy, qz, qw⟩ := q
  obtain ⟨x, y, z⟩ := v
  simp only [rotR, composeQuat, V3.cross, V3.mk.injEq]
  refine ⟨?_, ?_, ?_⟩ <;> ring

theorem normSq_compose (p q : Q4 ℝ) : Q4.normSq (composeQuat p q) = Q4.normSq p * Q4.normSq q := by
  obtain ⟨px, py, pz, pw⟩ := p
  obtain ⟨qx, qy, qz, qw⟩ := q
  simp only [Q4.normSq, composeQuat, V3.cross]
  ring

/-- scipy's product of two unit quaternions: the normalisation is void, the rotations compose -/
theorem mulRot_unit (p q : Q4 ℝ) (hp : Q4.normSq p = 1) (hq : Q4.normSq q = 1) :
    mulRot p q = composeQuat p q ∧ Q4.normSq (mulRot p q) = 1 := by
  have h : Q4.normSq (composeQuat p q) = 1 := by rw [normSq_compose, hp, hq]; norm_num
  unfold mulRot
  rw [fromQuat_unit _ h]
  exact ⟨rfl, h⟩

/-- two linear maps that agree on `s`, `o` and `s × o ≠ 0` agree everywhere -/
theorem agree_of_basis (A B : M3) (s o : V3 ℝ)
    (hs : A.mulVec s = B.mulVec s) (ho : A.mulVec o = B.mulVec o)
    (hw : A.mulVec (V3.cross s o) = B.mulVec (V3.cross s o))
    (hne : V3.dot (V3.cross s o) (V3.cross s o) ≠ 0) (v : V3 ℝ) : A.mulVec v = B.mulVec v := by
  obtain ⟨a11, a12, a13, a21, a22, a23, a31, a32, a33⟩ := A
  obtain ⟨b11, b12, b13, b21, b22, b23, b31, b32, b33⟩ := B
  obtain ⟨sx, sy, sz⟩ := s
  obtain ⟨ox, oy, oz⟩ := o
  obtain ⟨x, y, z⟩ := v
  simp only [M3.mulVec, V3.cross, V3.mk.injEq] at hs ho hw
  simp only [V3.dot, V3.cross] at hne
  obtain ⟨hs1, hs2, hs3⟩ := hs
  obtain ⟨ho1, ho2, ho3⟩ := ho
  obtain ⟨hw1, hw2, hw3⟩ := hw
  simp only [M3.mulVec, V3.mk.injEq]
  set vs := x * sx + y * sy + z * sz with hvs
  set vo := x * ox + y * oy + z * oz with hvo
  set ss := sx * sx + sy * sy + sz * sz with hss
  set oo := ox * ox + oy * oy + oz * oz with hoo
  set so := sx * ox + sy * oy + sz * oz with hso
  set vw := x * (sy * oz - sz * oy) + y * (sz * ox - sx * oz) + z * (sx * oy - sy * ox) with hvw
  refine ⟨?_, ?_, ?_⟩
  · apply mul_left_cancel₀ hne
    linear_combination (vs * oo - vo * so) * hs1 + (vo * ss - vs * so) * ho1 + vw * hw1
  · apply mul_left_cancel₀ hne
    linear_combination (vs * oo - vo * so) * hs2 + (vo * ss - vs * so) * ho2 + vw * hw2
  · apply mul_left_cancel₀ hne
    linear_combination (vs * oo - vo * so) * hs3 + (vo * ss - vs * so) * ho3 + vw * hw3

end Mofun.QuatH
