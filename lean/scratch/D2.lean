import MofunModel.Proofs.QuatRealAlign
namespace Mofun.QuatH
open Mofun.Uff Mofun.Uff.ElemFun QNum

/-- what the first step needs: not the code's degenerate branch, or EXACTLY antiparallel with a drawn vector that is
    not along the search axis -/
def FirstStepOk (rv s m : V3 ℝ) : Prop :=
  qftvDegenerate s m = false ∨
    (unitOf m = V3.neg (unitOf s) ∧ (1 : ℝ) / 10 ^ 15 < V3.norm (V3.cross (unitOf s) rv))

theorem qftv_first_step (rv s m : V3 ℝ) (hs : V3.norm s ≠ 0) (hm : V3.norm m ≠ 0) (h : FirstStepOk rv s m) :
    rotR (quaternionFromTwoVectors rv s m) (unitOf s) = unitOf m ∧
      Q4.normSq (quaternionFromTwoVectors rv s m) = 1 := by
  rcases h with h | ⟨h1, h2⟩
  · exact ⟨qftv_maps rv s m hs hm h, qftv_unit rv s m hs hm h⟩
  · exact qftv_antiparallel rv s m hs h1 h2

/-- a linear map that carries the direction of `s` onto the direction of `m`, `‖m‖ = ‖s‖ ≠ 0`, carries `s` onto `m` -/
theorem mulVec_of_unit (A : M3) (s m : V3 ℝ) (hs : V3.norm s ≠ 0) (hn : V3.norm m = V3.norm s)
    (h : A.mulVec (unitOf s) = unitOf m) : A.mulVec s = m := by
  have e1 : s = V3.smul (V3.norm s) (unitOf s) := (smul_norm_divs s hs).symm
  have e2 : m = V3.smul (V3.norm m) (unitOf m) := (smul_norm_divs m (by rw [hn]; exact hs)).symm
  rw [e1, mulVec_smul, h, ← hn, ← e2]

theorem projectOff_decomp (p a : V3 ℝ) :
    p = V3.add (projectOff p a) (V3.smul (V3.dot p a / V3.dot a a) a) := by
  obtain ⟨x, y, z⟩ := p
  simp only [projectOff, V3.add, V3.sub, V3.smul, V3.mk.injEq]
  refine ⟨?_, ?_, ?_⟩ <;> ring

/-- `|s × o|² = |s|² · |o − proj_s o|²` -/
theorem cross_projectOff (s o : V3 ℝ) (hss : V3.dot s s ≠ 0) :
    V3.dot (V3.cross s o) (V3.cross s o) = V3.dot s s * V3.dot (projectOff o s) (projectOff o s) := by
  have ht : V3.dot o s / V3.dot s s * V3.dot s s = V3.dot o s := div_mul_cancel₀ _ hss
  unfold projectOff
  generalize V3.dot o s / V3.dot s s = t at ht ⊢
  unfold V3.dot V3.cross V3.sub V3.smul at *
  simp only
  linear_combination (-(t * (s.x * s.x + s.y * s.y + s.z * s.z) - (o.x * s.x + o.y * s.y + o.z * s.z))) * ht


/-- **core of (d).** For a proper rotation `M`, a search axis `s` longer than the 1e-15 guard and an orientation point
    `o` off the axis: the composed quaternion of the candidate loop is a unit quaternion whose rotation IS `M`. -/
theorem two_step_core (rv s o : V3 ℝ) (M : M3) (hM : M.IsProper)
    (hs : (1 : ℝ) / 10 ^ 15 < V3.norm s) (ho : V3.norm (projectOff o s) ≠ 0)
    (h1 : FirstStepOk rv s (M.mulVec s)) :
    Q4.normSq (mulRot (quaternionFromTwoVectorsAroundAxis
        (applyRot (quaternionFromTwoVectors rv s (M.mulVec s)) o) (M.mulVec o) (M.mulVec s))
        (quaternionFromTwoVectors rv s (M.mulVec s))) = 1 ∧
    ∀ v, rotR (mulRot (quaternionFromTwoVectorsAroundAxis
        (applyRot (quaternionFromTwoVectors rv s (M.mulVec s)) o) (M.mulVec o) (M.mulVec s))
        (quaternionFromTwoVectors rv s (M.mulVec s))) v = M.mulVec v := by
  set m := M.mulVec s with hm
  set q1 := quaternionFromTwoVectors rv s m with hq1
  have hsn : V3.norm s ≠ 0 := by
    have : (0 : ℝ) < 1 / 10 ^ 15 := by norm_num
    exact ne_of_gt (lt_trans this hs)
  have hmn : V3.norm m = V3.norm s := proper_norm M hM s
  have hmn0 : V3.norm m ≠ 0 := by rw [hmn]; exact hsn
  obtain ⟨hR1u, hq1u⟩ := qftv_first_step rv s m hsn hmn0 h1
  set A := rotMat q1 with hA
  have hAp : A.IsProper := rotMat_proper q1 hq1u
  have hAs : A.mulVec s = m := mulVec_of_unit A s m hsn hmn (by rw [hA, ← rotR_eq_mulVec]; exact hR1u)
  have happ : applyRot q1 o = A.mulVec o := by rw [applyRot_eq_rotR, rotR_eq_mulVec]
  rw [happ]
  -- the two projections orthogonal to the match axis are images of ONE vector under two isometries
  have hu1 : projectOff (A.mulVec o) m = A.mulVec (projectOff o s) := by
    rw [proper_projectOff A hAp, hAs]
  have hu2 : projectOff (M.mulVec o) m = M.mulVec (projectOff o s) := by
    rw [proper_projectOff M hM]
  have hn1 : V3.norm (projectOff (A.mulVec o) m) = V3.norm (projectOff o s) := by rw [hu1, proper_norm A hAp]
  have hn2 : V3.norm (projectOff (M.mulVec o) m) = V3.norm (projectOff o s) := by rw [hu2, proper_norm M hM]
  obtain ⟨hB1, hB2, hq2u⟩ := qftvaa_spec (A.mulVec o) (M.mulVec o) m (by rw [hmn]; exact hs)
    (by rw [hn1]; exact ho) (by rw [hn2]; exact ho)
  set q2 := quaternionFromTwoVectorsAroundAxis (A.mulVec o) (M.mulVec o) m with hq2
  set B := rotMat q2 with hB
  obtain ⟨hmul, hqu⟩ := mulRot_unit q2 q1 hq2u hq1u
  refine ⟨hqu, ?_⟩
  have hRv : ∀ v, rotR (mulRot q2 q1) v = B.mulVec (A.mulVec v) := by
    intro v; rw [hmul, rotR_compose, rotR_eq_mulVec, rotR_eq_mulVec]
  set R := rotMat (mulRot q2 q1) with hR
  have hRp : R.IsProper := rotMat_proper _ hqu
  have hRv' : ∀ v, R.mulVec v = B.mulVec (A.mulVec v) := by
    intro v; rw [hR, ← rotR_eq_mulVec]; exact hRv v
  -- agreement on the search axis
  have hBm : B.mulVec m = m := hB1
  have hRs : R.mulVec s = M.mulVec s := by rw [hRv', hAs, hBm]
  -- agreement on the orientation point
  have hRo : R.mulVec o = M.mulVec o := by
    rw [hRv']
    have d1 := projectOff_decomp (A.mulVec o) m
    have d2 := projectOff_decomp (M.mulVec o) m
    have hlam : V3.dot (A.mulVec o) m = V3.dot (M.mulVec o) m := by
      rw [← hAs, proper_dot A hAp, hAs, hm, proper_dot M hM]
    have hBu : B.mulVec (projectOff (A.mulVec o) m) = projectOff (M.mulVec o) m := by
      have e1 : projectOff (A.mulVec o) m =
          V3.smul (V3.norm (projectOff (A.mulVec o) m)) (unitOf (projectOff (A.mulVec o) m)) :=
        (smul_norm_divs _ (by rw [hn1]; exact ho)).symm
      have e2 : projectOff (M.mulVec o) m =
          V3.smul (V3.norm (projectOff (M.mulVec o) m)) (unitOf (projectOff (M.mulVec o) m)) :=
        (smul_norm_divs _ (by rw [hn2]; exact ho)).symm
      have hB2' : B.mulVec (unitOf (projectOff (A.mulVec o) m)) = unitOf (projectOff (M.mulVec o) m) := hB2
      rw [e1, mulVec_smul, hB2', hn1, ← hn2, ← e2]
    rw [d1, mulVec_add, mulVec_smul, hBu, hBm, hlam]
    exact d2.symm
  -- agreement on the cross product, hence everywhere
  have hRw : R.mulVec (V3.cross s o) = M.mulVec (V3.cross s o) := by
    rw [proper_cross R hRp, proper_cross M hM, hRs, hRo]
  have hss : V3.dot s s ≠ 0 := by
    have := norm_sq s
    unfold V3.dot; rw [← this]; exact mul_ne_zero hsn hsn
  have hne : V3.dot (V3.cross s o) (V3.cross s o) ≠ 0 := by
    rw [cross_projectOff s o hss]
    apply mul_ne_zero hss
    have := norm_sq (projectOff o s)
    unfold V3.dot; rw [← this]; exact mul_ne_zero ho ho
  intro v
  rw [rotR_eq_mulVec]
  exact agree_of_basis R M s o hRs hRo hRw hne v


/-! ### the candidate loop on an exact rigid copy -/

/-- the candidate is an EXACT rigid copy of the (translated) pattern: `A[i] = M·P[i] + t` -/
def ExactCopy (M : M3) (t : V3 ℝ) (tp ap : List (V3 ℝ)) : Prop :=
  ap.length = tp.length ∧ ∀ i, i < tp.length → getV ap i = V3.add (M.mulVec (getV tp i)) t

theorem exactCopy_sub (M : M3) (t : V3 ℝ) (tp ap : List (V3 ℝ)) (h : ExactCopy M t tp ap) (ax1 : Nat)
    (h1 : ax1 < tp.length) (h0 : getV tp ax1 = ⟨0, 0, 0⟩) (i : Nat) (hi : i < tp.length) :
    V3.sub (getV ap i) (getV ap ax1) = M.mulVec (getV tp i) := by
  rw [h.2 i hi, h.2 ax1 h1, h0, mulVec_zero]
  generalize M.mulVec (getV tp i) = a
  obtain ⟨x, y, z⟩ := a
  obtain ⟨tx, ty, tz⟩ := t
  simp only [V3.sub, V3.add, V3.mk.injEq]
  refine ⟨?_, ?_, ?_⟩ <;> ring

/-- **(d) two_step_aligns.** Pattern `tp` (first axis point at the origin, as after the code's translation), more than
    two atoms, search axis `tp[ax2]` longer than the 1e-15 guard, orientation point `tp[op]` off the axis; candidate
    `ap` an EXACT rigid copy `A[i] = M·P[i] + t` with `M` a proper rotation; first step not in the degenerate window
    (or exactly antiparallel with a usable random vector).  Then the quaternion the candidate loop builds is a unit
    quaternion and `rotR q P[i] = A[i] − A[ax1]` for EVERY atom: the final re-check sees error 0. -/
theorem two_step_aligns (rv : V3 ℝ) (tp ap : List (V3 ℝ)) (ax1 ax2 op : Nat) (M : M3) (t : V3 ℝ)
    (hM : M.IsProper) (hcopy : ExactCopy M t tp ap) (hlen : 2 < tp.length)
    (h1 : ax1 < tp.length) (h2 : ax2 < tp.length) (h3 : op < tp.length)
    (h0 : getV tp ax1 = ⟨0, 0, 0⟩)
    (hs : (1 : ℝ) / 10 ^ 15 < V3.norm (getV tp ax2))
    (ho : V3.norm (projectOff (getV tp op) (getV tp ax2)) ≠ 0)
    (hfirst : FirstStepOk rv (getV tp ax2) (M.mulVec (getV tp ax2))) :
    Q4.normSq (matchQuat rv tp ap ax1 ax2 op) = 1 ∧
    ∀ i, i < tp.length → rotR (matchQuat rv tp ap ax1 ax2 op) (getV tp i) = V3.sub (getV ap i) (getV ap ax1) := by
  have hg1 : ap.length > 1 := by rw [hcopy.1]; omega
  have hg2 : ap.length > 2 := by rw [hcopy.1]; omega
  have e2 := exactCopy_sub M t tp ap hcopy ax1 h1 h0 ax2 h2
  have e3 := exactCopy_sub M t tp ap hcopy ax1 h1 h0 op h3
  have hq : matchQuat rv tp ap ax1 ax2 op =
      mulRot (quaternionFromTwoVectorsAroundAxis
        (applyRot (quaternionFromTwoVectors rv (getV tp ax2) (M.mulVec (getV tp ax2))) (getV tp op))
        (M.mulVec (getV tp op)) (M.mulVec (getV tp ax2)))
        (quaternionFromTwoVectors rv (getV tp ax2) (M.mulVec (getV tp ax2))) := by
    unfold matchQuat
    simp only [hg1, hg2, if_true, e2, e3]
  obtain ⟨hu, hall⟩ := two_step_core rv (getV tp ax2) (getV tp op) M hM hs ho hfirst
  rw [hq]
  refine ⟨hu, fun i hi => ?_⟩
  rw [hall, exactCopy_sub M t tp ap hcopy ax1 h1 h0 i hi]

/-- **(d), two atoms.** Only the first step is needed: the axis atom lands on the candidate's axis atom exactly. -/
theorem two_atoms_align (rv : V3 ℝ) (tp ap : List (V3 ℝ)) (ax1 ax2 op : Nat) (M : M3) (t : V3 ℝ)
    (hM : M.IsProper) (hcopy : ExactCopy M t tp ap) (hlen : tp.length = 2)
    (h1 : ax1 < 2) (h2 : ax2 < 2) (hne : ax1 ≠ ax2)
    (h0 : getV tp ax1 = ⟨0, 0, 0⟩) (hs : V3.norm (getV tp ax2) ≠ 0)
    (hfirst : FirstStepOk rv (getV tp ax2) (M.mulVec (getV tp ax2))) :
    Q4.normSq (matchQuat rv tp ap ax1 ax2 op) = 1 ∧
    ∀ i, i < tp.length → rotR (matchQuat rv tp ap ax1 ax2 op) (getV tp i) = V3.sub (getV ap i) (getV ap ax1) := by
  have hg1 : ap.length > 1 := by rw [hcopy.1]; omega
  have hg2 : ¬ ap.length > 2 := by rw [hcopy.1]; omega
  have h1' : ax1 < tp.length := by omega
  have h2' : ax2 < tp.length := by omega
  have e2 := exactCopy_sub M t tp ap hcopy ax1 h1' h0 ax2 h2'
  have hq : matchQuat rv tp ap ax1 ax2 op = quaternionFromTwoVectors rv (getV tp ax2) (M.mulVec (getV tp ax2)) := by
    unfold matchQuat
    simp only [hg1, hg2, if_true, if_false, e2]
  set s := getV tp ax2 with hsdef
  have hmn : V3.norm (M.mulVec s) = V3.norm s := proper_norm M hM s
  obtain ⟨hR, hu⟩ := qftv_first_step rv s (M.mulVec s) hs (by rw [hmn]; exact hs) hfirst
  rw [hq]
  refine ⟨hu, fun i hi => ?_⟩
  rw [exactCopy_sub M t tp ap hcopy ax1 h1' h0 i hi]
  have hi2 : i = ax1 ∨ i = ax2 := by omega
  rcases hi2 with rfl | rfl
  · rw [h0, mulVec_zero]
    simp only [rotR, V3.mk.injEq]; refine ⟨?_, ?_, ?_⟩ <;> ring
  · rw [rotR_eq_mulVec]
    exact mulVec_of_unit _ s _ hs hmn (by rw [← rotR_eq_mulVec]; exact hR)

/-- **(d), one atom.** The loop leaves `Rotation.identity()`; the single atom (at the origin after the translation)
    stays where the candidate's atom is, relative to itself. -/
theorem one_atom_align (rv : V3 ℝ) (p a : V3 ℝ) (ax1 ax2 op : Nat) (h0 : getV [p] ax1 = ⟨0, 0, 0⟩) (h1 : ax1 < 1) :
    matchQuat rv [p] [a] ax1 ax2 op = ⟨0, 0, 0, 1⟩ ∧
    ∀ i, i < 1 → rotR (matchQuat rv [p] [a] ax1 ax2 op) (getV [p] i) = V3.sub (getV [a] i) (getV [a] ax1) := by
  have hq : matchQuat rv [p] [a] ax1 ax2 op = ⟨0, 0, 0, 1⟩ := by
    unfold matchQuat Q4.identity
    simp [n0_real, n1_real]
  refine ⟨hq, fun i hi => ?_⟩
  have hi0 : i = 0 := by omega
  have h10 : ax1 = 0 := by omega
  subst hi0; subst h10
  rw [hq, rotR_identity, h0]
  simp only [getV, List.getD_cons_zero, V3.sub, V3.mk.injEq, sub_self, and_self]

end Mofun.QuatH
