import MofunModel.Proofs.QuatReal
namespace Mofun.QuatH
open Mofun.Uff Mofun.Uff.ElemFun QNum

theorem normSq_axisAngle (k : V3 ℝ) (s c : ℝ) :
    Q4.normSq (axisAngleQuat k s c) = s * s * V3.dot k k + c * c := by
  unfold Q4.normSq axisAngleQuat V3.muls V3.dot; ring

/-- a normalised vector `a / ‖a‖` (`‖a‖ ≠ 0`) orthogonal to whatever `a` is orthogonal to, of unit length -/
theorem divs_norm_facts (a v : V3 ℝ) (hn : V3.norm a ≠ 0) (hav : V3.dot a v = 0) :
    V3.dot (V3.divs a (V3.norm a)) (V3.divs a (V3.norm a)) = 1 ∧ V3.dot (V3.divs a (V3.norm a)) v = 0 := by
  refine ⟨unitOf_dot_self a hn, ?_⟩
  unfold V3.dot V3.divs at *
  simp only
  have : (a.x * v.x + a.y * v.y + a.z * v.z) / V3.norm a = 0 := by rw [hav]; simp
  rw [← this]; field_simp

/-- **the exactly antiparallel case.** `p2/‖p2‖ = −p1/‖p1‖`: the code takes its random-axis branch; provided the drawn
    vector `rv` is not along `p1` (the cross product is longer than the 1e-15 of the normalisation guard) the result is a
    half turn about an axis perpendicular to `p1` and carries the direction of `p1` onto that of `p2`. -/
theorem qftv_antiparallel (rv p1 p2 : V3 ℝ) (h1 : V3.norm p1 ≠ 0)
    (hanti : unitOf p2 = V3.neg (unitOf p1)) (hrv : (1 : ℝ) / 10 ^ 15 < V3.norm (V3.cross (unitOf p1) rv)) :
    rotR (quaternionFromTwoVectors rv p1 p2) (unitOf p1) = unitOf p2 ∧
      Q4.normSq (quaternionFromTwoVectors rv p1 p2) = 1 := by
  have hu : V3.dot (unitOf p1) (unitOf p1) = 1 := unitOf_dot_self p1 h1
  -- the dot product is −1, the angle π
  have hd : V3.dot (unitOf p1) (unitOf p2) = -1 := by
    rw [hanti]
    have : V3.dot (unitOf p1) (V3.neg (unitOf p1)) = - V3.dot (unitOf p1) (unitOf p1) := by
      unfold V3.dot V3.neg; ring
    rw [this, hu]
  have hθ : angleOf p1 p2 = Real.pi := by
    unfold angleOf
    rw [clampDot_real _ _ (by rw [hd]) (by rw [hd]; norm_num), hd]
    exact Real.arccos_neg_one
  have hcross : V3.cross (unitOf p1) (unitOf p2) = ⟨0, 0, 0⟩ := by
    rw [hanti]; unfold V3.cross V3.neg; simp only [V3.mk.injEq]; refine ⟨?_, ?_, ?_⟩ <;> ring
  have hdeg : qftvDegenerate p1 p2 = true := by
    unfold qftvDegenerate degenerateBranch
    rw [hcross, hθ]
    have h1' : V3.allClose (⟨0, 0, 0⟩ : V3 ℝ) (⟨n0, n0, n0⟩ : V3 ℝ) = true := by
      rw [allClose_zero_real]; simp
    have h2' : QNum.eq Real.pi (n0 : ℝ) = false := by
      rw [Bool.eq_false_iff]; intro h; rw [eq_real, n0_real] at h; exact Real.pi_ne_zero h
    rw [h1', h2']; rfl
  set a := V3.cross (unitOf p1) rv with ha
  have hn : V3.norm a ≠ 0 := by
    have : (0 : ℝ) < 1 / 10 ^ 15 := by norm_num
    exact ne_of_gt (lt_trans this hrv)
  have hau : V3.dot a (unitOf p1) = 0 := by rw [ha]; unfold V3.dot V3.cross; ring
  obtain ⟨hkk, hku⟩ := divs_norm_facts a (unitOf p1) hn hau
  have hax : normaliseAxis a = V3.divs a (V3.norm a) := by
    unfold normaliseAxis
    have : QNum.lt (dec 1 15 : ℝ) (V3.norm a) = true := by rw [lt_real, dec115_real]; exact hrv
    rw [this]; simp
  have hq : quaternionFromTwoVectors rv p1 p2 = axisAngleQuat (V3.divs a (V3.norm a)) 1 0 := by
    rw [qftv_unfold, hdeg, hθ]
    simp only [if_true, Real.sin_pi_div_two, Real.cos_pi_div_two]
    rw [hax]
    apply fromQuat_unit
    rw [normSq_axisAngle, hkk]; norm_num
  rw [hq]
  refine ⟨?_, by rw [normSq_axisAngle, hkk]; norm_num⟩
  rw [rotR_axisAngle, hkk, hku, hanti]
  unfold V3.neg
  simp only [V3.mk.injEq]
  refine ⟨?_, ?_, ?_⟩ <;> ring

end Mofun.QuatH
