import MofunModel.Proofs.QuatRealAxis
#print axioms Mofun.QuatH.qftvaa_spec
#print axioms Mofun.QuatH.qftv_maps
#print axioms Mofun.QuatH.qftv_antiparallel
