#!/venv/bin/python
"""Regenerates the machine-written appendices of DESIGN.md (between the markers) from lean/theorems, evidence, seeded/."""
import glob
import json
import os
import re
import sys

V = os.path.dirname(os.path.dirname(os.path.abspath(__file__)))
sys.path.insert(0, V)
from harness.run import load_meta  # noqa

BEGIN, END = "<!-- BEGIN GENERATED APPENDICES -->", "<!-- END GENERATED APPENDICES -->"


def main():
    claimed = json.load(open(os.path.join(V, "claimed.json")))
    out = [BEGIN, "", "## Appendix G — theorems as built (generated from lean/theorems/*.json; every name is audited on every run)", ""]
    tot = 0
    for pid in claimed:
        m = load_meta(pid)
        ev = {}
        p = os.path.join(V, "evidence", pid + ".json")
        if os.path.exists(p):
            ev = json.load(open(p))
        c = ev.get("coverage", {})
        out.append("### %s — %d theorems; driver `%s`; last quick run: %s cases, %s model/implementation comparisons, %s s" % (
            pid, len(m["theorems"]), m.get("driver", ""), c.get("evaluations"), c.get("traces_validated_against_impl"), ev.get("wall_s")))
        out.append("")
        if m.get("level_text"):
            out.append(m["level_text"].strip())
            out.append("")
        for t in m["theorems"]:
            tot += 1
            out.append("* `%s` (%s) — %s" % (t["name"].replace("Mofun.", ""), t.get("status", "full"), (t.get("note") or "").strip().replace("\n", " ")))
        st = m.get("stretch", [])
        if st:
            out.append("")
            out.append("Not proved (stretch): " + "; ".join((s if isinstance(s, str) else s.get("name", json.dumps(s))) for s in st))
        out.append("")
    out.insert(3, "Total: %d theorems over %d properties." % (tot, len(claimed)))
    out.append("## Appendix H — independently seeded breaking changes and what the checks report (generated from seeded/RESULTS.json)")
    out.append("")
    out.append("Each change was written by a fresh sub-agent that saw only the property text and a scratch worktree; each was confirmed "
               "(patch applies, pinned suite still 122 passed, demo fails with / passes without the change) before being kept under "
               "`seeded/<name>/`. `-s*` … `-z*` = rounds 1 … 8, `-q*` = round 9 (from round 2 on each seeder was told which code sites earlier rounds had used; rounds 3–4 asked for state, defaults, aliasing and scale corner cases; round 6 asked for changes in SUPPORTING code only; round 7 for follow-up clean-ups of the repairs and multi-step sequences; round 8 for performance optimisations and two cooperating edits; round 9 for added leniency and numpy-2 / API modernisation patches); `*-revert-*` = the reverse patch of a `fix:` commit; `retired` = a later repair of /repo made the change harmless (its own demo passes with it).")
    out.append("")
    out.append("| change | property | outcome of `./check <property>` (quick tier) on the patched tree | reported |")
    out.append("|---|---|---|---|")
    res = json.load(open(os.path.join(V, "seeded", "RESULTS.json")))
    for name, r in sorted(res.items()):
        out.append("| %s | %s | %s | %s |" % (name, r["property"], r["outcome"], (r.get("what") or "").replace("|", "/").replace("\n", " ")[:150]))
    retired = sum(1 for r in res.values() if r["outcome"] == "retired")
    n = len(res) - retired
    caught = sum(1 for r in res.values() if r["outcome"].startswith("caught"))
    replay = sum(1 for r in res.values() if r["outcome"] == "caught:replay")
    out.append("")
    out.append("Summary: %d changes, %d reported as VIOLATION (%d with a concrete failing input as replay, %d as `no-failing-input-found`), %d missed; %d retired." % (
        n, caught, replay, caught - replay, n - caught, retired))
    out.append("")
    out.append(END)
    p = os.path.join(V, "DESIGN.md")
    s = open(p).read()
    block = "\n".join(out)
    if BEGIN in s:
        s = re.sub(re.escape(BEGIN) + ".*?" + re.escape(END), lambda _: block, s, flags=re.S)
    else:
        s = s.rstrip("\n") + "\n\n" + block + "\n"
    open(p, "w").write(s)
    print("appendices written:", tot, "theorems,", n, "seeded changes")


if __name__ == "__main__":
    main()
