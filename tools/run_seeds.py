#!/venv/bin/python
"""Run every kept seeded change (seeded/<name>/patch.diff) against the check of its property, in a scratch copy of
/repo (MOFUN_REPO), and record the outcome in seeded/RESULTS.json.  usage: tools/run_seeds.py [name-prefix …]"""
import json
import os
import re
import shutil
import subprocess
import sys
import tempfile
from concurrent.futures import ThreadPoolExecutor

VERIF = os.path.dirname(os.path.dirname(os.path.abspath(__file__)))


def one(name):
    d = tempfile.mkdtemp(prefix="mofun_seedrun_")
    try:
        meta = json.load(open(os.path.join(VERIF, "seeded", name, "meta.json")))
        prop = meta["property"]
        if meta.get("retired"):
            return name, {"property": prop, "outcome": "retired", "what": meta["retired"][:300]}
        subprocess.run(["rsync", "-a", "--exclude", ".git", "/repo/", d + "/"], check=True)
        p = subprocess.run(["patch", "-p1", "-s", "-i", os.path.join(VERIF, "seeded", name, "patch.diff")], cwd=d)
        if p.returncode != 0:
            return name, {"property": prop, "outcome": "patch-failed"}
        r = subprocess.run(["./check", prop, "--tier", "quick"], cwd=VERIF,
                           env=dict(os.environ, MOFUN_REPO=d, VERIF_EVIDENCE_DIR=os.path.join(d, "_evidence")),
                           stdout=subprocess.PIPE, stderr=subprocess.STDOUT, text=True)
        v = [l for l in r.stdout.split("\n") if l.startswith("VIOLATION")]
        if r.returncode == 1 and v:
            outcome = "caught:no-failing-input-found" if v[0].rstrip().endswith("no-failing-input-found") else "caught:replay"
            what = ""
            m = re.search(r"replay=(\S+)", v[0])
            if m:
                try:
                    rec = json.load(open(os.path.normpath(os.path.join(VERIF, m.group(1)))))
                    what = str(rec.get("what", ""))[:300]
                except Exception:
                    pass
            return name, {"property": prop, "outcome": outcome, "what": what}
        return name, {"property": prop, "outcome": "MISSED" if r.returncode == 0 else "rc=%d" % r.returncode, "tail": r.stdout[-300:]}
    finally:
        shutil.rmtree(d, ignore_errors=True)


def main():
    names = sorted(n for n in os.listdir(os.path.join(VERIF, "seeded")) if os.path.isdir(os.path.join(VERIF, "seeded", n)))
    if len(sys.argv) > 1:
        names = [n for n in names if any(n.startswith(a) for a in sys.argv[1:])]
    path = os.path.join(VERIF, "seeded", "RESULTS.json")
    res = json.load(open(path)) if os.path.exists(path) else {}
    with ThreadPoolExecutor(max_workers=6) as ex:
        for name, r in ex.map(one, names):
            res[name] = r
            print(name, r["outcome"], r.get("what", "")[:120])
    json.dump(dict(sorted(res.items())), open(path, "w"), indent=1)


if __name__ == "__main__":
    main()
