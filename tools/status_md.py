#!/venv/bin/python
"""Prints the as-built status tables (markdown) from lean/theorems/*.json, evidence/*.json and seeded/RESULTS.json."""
import glob
import json
import os

V = os.path.dirname(os.path.dirname(os.path.abspath(__file__)))
claimed = json.load(open(os.path.join(V, "claimed.json")))
print("| id | theorems (full/partial) | Lean driver | quick: cases / compared / wall | stretch left |")
print("|---|---|---|---|---|")
for pid in claimed:
    m = json.load(open(os.path.join(V, "lean", "theorems", pid + ".json")))
    full = sum(1 for t in m["theorems"] if t.get("status", "full") == "full")
    part = len(m["theorems"]) - full
    ev = {}
    p = os.path.join(V, "evidence", pid + ".json")
    if os.path.exists(p):
        ev = json.load(open(p))
    c = ev.get("coverage", {})
    st = m.get("stretch", [])
    st = "; ".join(s if isinstance(s, str) else s.get("name", str(s)) for s in st)[:160]
    print("| %s | %d / %d | %s | %s / %s / %ss | %s |" % (pid, full, part, m.get("driver", ""), c.get("evaluations"), c.get("traces_validated_against_impl"), ev.get("wall_s"), st or "—"))
print()
res = json.load(open(os.path.join(V, "seeded", "RESULTS.json")))
print("| seeded change | property | outcome | what the check reported |")
print("|---|---|---|---|")
for name, r in sorted(res.items()):
    print("| %s | %s | %s | %s |" % (name, r["property"], r["outcome"], (r.get("what") or "").replace("|", "/")[:140]))
