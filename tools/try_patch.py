#!/venv/bin/python
"""Apply a patch to a scratch COPY of /repo, (optionally) run the pinned tests there, run the given checks against the
copy (MOFUN_REPO), report, delete the copy.   usage: tools/try_patch.py PATCH [--tests] [--tier quick|thorough] ID [ID …]
(Validation of the machinery only — not a registered check. The final protocol run applies the patch to /repo itself.)"""
import os
import shutil
import subprocess
import sys
import tempfile

def main():
    args = sys.argv[1:]
    patch = os.path.abspath(args.pop(0))
    tests = "--tests" in args
    if tests:
        args.remove("--tests")
    tier = "quick"
    if "--tier" in args:
        i = args.index("--tier")
        tier = args[i + 1]
        del args[i:i + 2]
    ids = args
    d = tempfile.mkdtemp(prefix="mofun_mut_")
    try:
        subprocess.run(["rsync", "-a", "--exclude", ".git", "/repo/", d + "/"], check=True)
        p = subprocess.run(["patch", "-p1", "-s", "-i", patch], cwd=d)
        if p.returncode != 0:
            print("PATCH-FAILED", patch)
            return 2
        if tests:
            t = subprocess.run(["/venv/bin/python", "-m", "pytest", "-q", "-p", "no:cacheprovider", "--timeout=900", "-x"],
                               cwd=d, env=dict(os.environ, PYTHONPATH=d), stdout=subprocess.PIPE, stderr=subprocess.STDOUT, text=True)
            print("TESTS:", t.stdout.strip().split("\n")[-1])
        verif = os.path.dirname(os.path.dirname(os.path.abspath(__file__)))
        for i in ids:
            r = subprocess.run(["./check", i, "--tier", tier], cwd=verif, env=dict(os.environ, MOFUN_REPO=d, VERIF_EVIDENCE_DIR=os.path.join(d, "_evidence")),
                               stdout=subprocess.PIPE, stderr=subprocess.STDOUT, text=True)
            last = [l for l in r.stdout.strip().split("\n") if l.startswith(("VIOLATION", "OK", "KNOWN", "TIMEOUT"))]
            print("%s rc=%d %s" % (i, r.returncode, " | ".join(last) or r.stdout[-300:]))
    finally:
        shutil.rmtree(d, ignore_errors=True)

if __name__ == "__main__":
    sys.exit(main())
