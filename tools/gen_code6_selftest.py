#!/venv/bin/python
"""Self-test of the batch-6 code translator (harness/gen_code6.py) WITHOUT touching /repo or the real Generated/*.lean.

For every mutation below: copy /repo to /tmp/mut_tr6, edit the copy (exact text replacement), run
`gen_code.render(copy)`, check that Code.lean is unchanged (batch 6 only adds Code6.lean), concatenate the scratch
Code6.lean + the Proofs/Props files that depend on it (imports merged, minus the imports of each other) into ONE scratch
file and elaborate it with `lake env lean` against the built library.  Reported per mutation: does the translator accept
the function, does the generated text differ, which theorems no longer elaborate.  The python-side assertions at the end
pin the numpy / networkx conventions the prelude `Py6` writes down (run against the installed libraries).

usage: tools/gen_code6_selftest.py [name-substring …]
(Validation of the machinery only — not a registered check.)"""
import os
import re
import shutil
import subprocess
import sys

VERIF = os.path.dirname(os.path.dirname(os.path.abspath(__file__)))
sys.path.insert(0, VERIF)
from harness import core, gen_code  # noqa: E402

COPY = "/tmp/mut_tr6"
SCRATCH = "/tmp/mut_tr6_out"

A = "mofun/atoms.py"
D = "mofun/detect_bonds.py"
U = "mofun/rough_uff.py"

# (name, kind, file, [(old text, new text)], Props ids, expectation)
MUTATIONS = [
    ("unchanged", "control", None, [], "C10 C09 C12 C17 C19", "pass"),
    # ---- item 1: Atoms.__delitem__
    ("delitem: angle_types deleted with the BOND row list", "breaking", A,
     [("            self.bonds, arr_idx_to_delete = self._delete_and_reindex_atom_index_array(self.bonds, sorted_indices)\n",
       "            self.bonds, arr_idx_to_delete = self._delete_and_reindex_atom_index_array(self.bonds, sorted_indices)\n            bond_rows = arr_idx_to_delete\n"),
      ("            self.angle_types = np.delete(self.angle_types, arr_idx_to_delete, axis=0)\n",
       "            self.angle_types = np.delete(self.angle_types, bond_rows, axis=0)\n")], "C10", "fail"),
    ("delitem: np.delete of charges dropped", "breaking", A,
     [("        self.charges = np.delete(self.charges, indices, axis=0)\n", "")], "C10", "fail"),
    ("delitem: np.delete of extra_dihedral_fields dropped", "breaking", A,
     [("            self.extra_dihedral_fields = np.delete(self.extra_dihedral_fields, arr_idx_to_delete, axis=0)\n", "")], "C10", "fail"),
    ("delitem: len(self.bonds) > 0 -> > 1", "breaking", A, [("        if len(self.bonds) > 0:\n            self.bonds, arr_idx_to_delete", "        if len(self.bonds) > 1:\n            self.bonds, arr_idx_to_delete")], "C10", "fail"),
    ("delitem: impropers guarded by len(self.dihedrals)", "breaking", A,
     [("        if len(self.impropers) > 0:\n            self.impropers, arr_idx_to_delete", "        if len(self.dihedrals) > 0:\n            self.impropers, arr_idx_to_delete")], "C10", "fail"),
    ("delitem: groups deleted with sorted_indices[:0] (nothing)", "unsupported", A,
     [("        self.groups = np.delete(self.groups, indices, axis=0)\n", "        self.groups = np.delete(self.groups, indices[:0], axis=0)\n")], "C10", "Unsupported"),
    ("delitem: dihedrals re-indexed with the ANGLE table", "breaking", A,
     [("self._delete_and_reindex_atom_index_array(self.dihedrals, sorted_indices)", "self._delete_and_reindex_atom_index_array(self.angles, sorted_indices)")], "C10", "fail"),
    ("delitem: bond_types filtered before the call (stale row list)", "breaking", A,
     [("            self.bonds, arr_idx_to_delete = self._delete_and_reindex_atom_index_array(self.bonds, sorted_indices)\n            self.bond_types = np.delete(self.bond_types, arr_idx_to_delete, axis=0)\n",
       "            self.bond_types = np.delete(self.bond_types, arr_idx_to_delete, axis=0)\n            self.bonds, arr_idx_to_delete = self._delete_and_reindex_atom_index_array(self.bonds, sorted_indices)\n")], "C10", "fail"),
    ("delitem: raw indices handed to the term code (revert of ee36d79)", "breaking", A,
     [("        sorted_indices = sorted({i % num_atoms for i in indices}, reverse=True)\n", "        sorted_indices = sorted(indices, reverse=True)\n")], "C10", "fail"),
    ("delitem: __len__ counts atom_types", "unsupported", A,
     [("    def __len__(self):\n        return len(self.positions)\n", "    def __len__(self):\n        return len(self.atom_types)\n")], "C10", "Unsupported"),
    ("delitem: __len__ is len(positions) + 1", "breaking", A,
     [("    def __len__(self):\n        return len(self.positions)\n", "    def __len__(self):\n        return len(self.positions) + 1\n")], "C10", "fail"),
    ("delitem NEUTRAL: local renamed (arr_idx_to_delete -> rows) in the bond block", "neutral", A,
     [("            self.bonds, arr_idx_to_delete = self._delete_and_reindex_atom_index_array(self.bonds, sorted_indices)\n            self.bond_types = np.delete(self.bond_types, arr_idx_to_delete, axis=0)\n            self.extra_bond_fields = np.delete(self.extra_bond_fields, arr_idx_to_delete, axis=0)\n",
       "            self.bonds, rows = self._delete_and_reindex_atom_index_array(self.bonds, sorted_indices)\n            self.bond_types = np.delete(self.bond_types, rows, axis=0)\n            self.extra_bond_fields = np.delete(self.extra_bond_fields, rows, axis=0)\n")], "C10", "pass"),
    ("delitem NEUTRAL: per-atom deletes reordered, types/extra of a kind exchanged", "neutral", A,
     [("        self.positions = np.delete(self.positions, indices, axis=0)\n        self.atom_types = np.delete(self.atom_types, indices, axis=0)\n",
       "        self.atom_types = np.delete(self.atom_types, indices, axis=0)\n        self.positions = np.delete(self.positions, indices, axis=0)\n"),
      ("            self.angle_types = np.delete(self.angle_types, arr_idx_to_delete, axis=0)\n            self.extra_angle_fields = np.delete(self.extra_angle_fields, arr_idx_to_delete, axis=0)\n",
       "            self.extra_angle_fields = np.delete(self.extra_angle_fields, arr_idx_to_delete, axis=0)\n            self.angle_types = np.delete(self.angle_types, arr_idx_to_delete, axis=0)\n")], "C10", "pass"),
    ("delitem NEUTRAL: the improper block moved before the bond block", "neutral", A,
     [("        if len(self.impropers) > 0:\n            self.impropers, arr_idx_to_delete = self._delete_and_reindex_atom_index_array(self.impropers, sorted_indices)\n            self.improper_types = np.delete(self.improper_types, arr_idx_to_delete, axis=0)\n            self.extra_improper_fields = np.delete(self.extra_improper_fields, arr_idx_to_delete, axis=0)\n", ""),
      ("        if len(self.bonds) > 0:\n            self.bonds, arr_idx_to_delete",
       "        if len(self.impropers) > 0:\n            self.impropers, arr_idx_to_delete = self._delete_and_reindex_atom_index_array(self.impropers, sorted_indices)\n            self.improper_types = np.delete(self.improper_types, arr_idx_to_delete, axis=0)\n            self.extra_improper_fields = np.delete(self.extra_improper_fields, arr_idx_to_delete, axis=0)\n        if len(self.bonds) > 0:\n            self.bonds, arr_idx_to_delete")], "C10", "pass"),
    # ---- item 2: Atoms.__getitem__
    ("getitem: bonds passed through", "breaking", A,
     [("                     cell=self.cell)\n\n    def cell_is_orthorhombic", "                     cell=self.cell, bonds=self.bonds)\n\n    def cell_is_orthorhombic")], "C09", "fail"),
    ("getitem: atom_type_labels no longer passed (revert of the labels repair)", "breaking", A,
     [("                     atom_type_labels=self.atom_type_labels,\n                     groups=np.take", "                     groups=np.take")], "C09", "fail"),
    ("getitem: charges passed whole instead of taken", "breaking", A,
     [("charges=np.take(self.charges, idx, axis=0)", "charges=self.charges")], "C09", "fail"),
    ("getitem: groups taken from atom_types", "unsupported", A,
     [("groups=np.take(self.groups, idx, axis=0)", "groups=np.take(self.atom_types, idx, axis=0)")], "C09", "Unsupported"),
    ("getitem: atom_type_masses receives the elements table", "unsupported", A,
     [("atom_type_masses=self.atom_type_masses,", "atom_type_masses=self.atom_type_elements,")], "C09", "Unsupported"),
    ("getitem: labels and elements tables exchanged", "breaking", A,
     [("atom_type_elements=self.atom_type_elements,\n                     atom_type_labels=self.atom_type_labels,",
       "atom_type_elements=self.atom_type_labels,\n                     atom_type_labels=self.atom_type_elements,")], "C09", "fail"),
    ("getitem: cell dropped", "breaking", A,
     [("                     groups=np.take(self.groups, idx, axis=0),\n                     cell=self.cell)", "                     groups=np.take(self.groups, idx, axis=0))")], "C09", "fail"),
    # ---- item 3: Atoms.replicate
    ("replicate: .T dropped in the translation vector", "breaking", A,
     [("transatoms.translate(np.matmul(transatoms.cell.T, ucmult))", "transatoms.translate(np.matmul(transatoms.cell, ucmult))")], "C12", "fail"),
    ("replicate: range(r) -> range(1, r + 1)", "unsupported", A,
     [("np.meshgrid(*[range(r) for r in repldims])", "np.meshgrid(*[range(1, r + 1) for r in repldims])")], "C12", "Unsupported"),
    ("replicate: range(r) -> range(r + 1)", "breaking", A,
     [("np.meshgrid(*[range(r) for r in repldims])", "np.meshgrid(*[range(r + 1) for r in repldims])")], "C12", "fail"),
    ("replicate: .T of the multiplier array dropped (reshape of the untransposed meshgrid)", "unsupported", A,
     [("np.array(np.meshgrid(*[range(r) for r in repldims])).T.reshape(-1, 3)", "np.array(np.meshgrid(*[range(r) for r in repldims])).reshape(-1, 3)")], "C12", "Unsupported"),
    ("replicate: the zero row is kept (the fragment's anchor line is gone)", "unsupported", A,
     [("        ucmults = ucmults[np.any(ucmults != 0, axis=1)] # remove [0,0,0] since in copy\n", "")], "C12", "Unsupported"),
    ("replicate: offsets=(0,0,0,0,1)", "breaking", A,
     [("repl_atoms.extend(transatoms, offsets=(0,0,0,0,0))", "repl_atoms.extend(transatoms, offsets=(0,0,0,0,1))")], "C12", "fail"),
    ("replicate: offsets keyword dropped (types merged)", "unsupported", A,
     [("repl_atoms.extend(transatoms, offsets=(0,0,0,0,0))", "repl_atoms.extend(transatoms)")], "C12", "Unsupported"),
    ("replicate: repldims reversed in the meshgrid", "breaking", A,
     [("np.meshgrid(*[range(r) for r in repldims])", "np.meshgrid(*[range(r) for r in (repldims[2], repldims[1], repldims[0])])")], "C12", "fail"),
    ("replicate: translation by the cell of repl_atoms' multiplier twice (2 * ucmult)", "unsupported", A,
     [("np.matmul(transatoms.cell.T, ucmult)", "np.matmul(transatoms.cell.T, 2 * ucmult)")], "C12", "Unsupported"),
    ("replicate NEUTRAL: locals renamed, matmul of self.cell.T", "neutral", A,
     [("        for ucmult in ucmults:\n            transatoms = self.copy()\n            transatoms.translate(np.matmul(transatoms.cell.T, ucmult))\n            repl_atoms.extend(transatoms, offsets=(0,0,0,0,0))\n",
       "        for ucmult in ucmults:\n            transatoms = self.copy()\n            shift = np.matmul(self.cell.T, ucmult)\n            transatoms.translate(shift)\n            repl_atoms.extend(transatoms, offsets=(0,0,0,0,0))\n")], "C12", "pass"),
    ("replicate NEUTRAL: explicit three ranges instead of the starred comprehension", "neutral", A,
     [("np.meshgrid(*[range(r) for r in repldims])", "np.meshgrid(range(repldims[0]), range(repldims[1]), range(repldims[2]))")], "C12", "pass"),
    # ---- item 4: detect_bonds
    ("detect_bonds: inner loop starts at idx1 (pairs i <= j)", "breaking", D,
     [("enumerate(structure.positions[idx1+1:])", "enumerate(structure.positions[idx1:])")], "C17", "fail"),
    ("detect_bonds: idx2 = i + idx1 (off by one)", "breaking", D, [("            idx2 = i + idx1 + 1\n", "            idx2 = i + idx1\n")], "C17", "fail"),
    ("detect_bonds: inner loop over ALL atoms (each pair twice, self pairs)", "breaking", D,
     [("enumerate(structure.positions[idx1+1:])", "enumerate(structure.positions[0:])")], "C17", "fail"),
    ("detect_bonds: cutoff of (idx1, idx1)", "breaking", D,
     [("max_bond_length(elements[idx1], elements[idx2])", "max_bond_length(elements[idx1], elements[idx1])")], "C17", "fail"),
    ("detect_bonds: < -> <= (not expressible with the squared column)", "unsupported", D,
     [("if np.any(ss < max_bond_length", "if np.any(ss <= max_bond_length")], "C17", "Unsupported"),
    ("detect_bonds: np.any -> np.all", "unsupported", D, [("if np.any(ss < max_bond_length", "if np.all(ss < max_bond_length")], "C17", "Unsupported"),
    ("detect_bonds: images of atom2 instead of atom1 minus offsets (atom1 - uc_offsets)", "unsupported", D,
     [("atom1_positions = atom1 + uc_offsets", "atom1_positions = atom1 - uc_offsets")], "C17", "Unsupported"),
    ("detect_bonds: no images even with a cell", "breaking", D,
     [("        uc_offsets = uc_neighbor_offsets(structure.cell)\n", "        uc_offsets = np.array([[0., 0., 0.]])\n")], "C17", "fail"),
    ("detect_bonds: the row is [idx2, idx1]", "breaking", D, [("bonds.append([idx1, idx2])", "bonds.append([idx2, idx1])")], "C17", "fail"),
    ("detect_bonds: distance to atom1 itself", "breaking", D,
     [("distance.cdist(atom1_positions, [atom2], \"euclidean\")", "distance.cdist(atom1_positions, [atom1], \"euclidean\")")], "C17", "fail"),
    ("detect_bonds: cityblock metric", "unsupported", D,
     [("distance.cdist(atom1_positions, [atom2], \"euclidean\")", "distance.cdist(atom1_positions, [atom2], \"cityblock\")")], "C17", "Unsupported"),
    ("detect_bonds: offset (0, 0, 0.5) without a cell", "breaking", D,
     [("uc_offsets = np.array([[0., 0., 0.]])", "uc_offsets = np.array([[0., 0., 0.5]])")], "C17", "fail"),
    ("detect_bonds NEUTRAL: locals renamed, idx2 = idx1 + 1 + i, cutoff bound to a local", "neutral", D,
     [("            idx2 = i + idx1 + 1\n", "            idx2 = idx1 + 1 + i\n"),
      ("            if np.any(ss < max_bond_length(elements[idx1], elements[idx2])):\n",
       "            cutoff = max_bond_length(elements[idx1], elements[idx2])\n            if np.any(ss < cutoff):\n")], "C17", "pass"),
    ("detect_bonds NEUTRAL: branches of the cell test exchanged (is None)", "neutral", D,
     [("    if structure.cell is not None:\n        # look at all 27-1 neighbors\n        uc_offsets = uc_neighbor_offsets(structure.cell)\n    else:\n        # look at only central cell since no boundaries\n        uc_offsets = np.array([[0., 0., 0.]])\n",
       "    if structure.cell is None:\n        uc_offsets = np.array([[0., 0., 0.]])\n    else:\n        uc_offsets = uc_neighbor_offsets(structure.cell)\n")], "C17", "pass"),
    # ---- item 5 (first half): calc_angles
    ("calc_angles: combinations -> permutations", "unsupported", U,
     [("for (a,b) in itertools.combinations(g.neighbors(n), 2)]", "for (a,b) in itertools.permutations(g.neighbors(n), 2)]")], "C19", "Unsupported"),
    ("calc_angles: the centre is written first (n, a, b)", "breaking", U,
     [("angles += [(a, n, b) for (a,b) in", "angles += [(n, a, b) for (a,b) in")], "C19", "fail"),
    ("calc_angles: ends exchanged (b, n, a)", "breaking", U,
     [("angles += [(a, n, b) for (a,b) in", "angles += [(b, n, a) for (a,b) in")], "C19", "fail"),
    ("calc_angles: angles = … instead of += (only the last node)", "breaking", U,
     [("        angles += [(a, n, b) for (a,b) in", "        angles = [(a, n, b) for (a,b) in")], "C19", "fail"),
    ("calc_angles: edges added twice (EQUIVALENT by de-duplication, but the proof does not follow it: rejected conservatively)", "equivalent", U,
     [("    g.add_edges_from(bonds)\n\n    angles = []\n", "    g.add_edges_from(bonds)\n    g.add_edges_from(bonds)\n\n    angles = []\n")], "C19", "fail"),
    ("calc_angles: combinations of 3", "unsupported", U,
     [("itertools.combinations(g.neighbors(n), 2)]", "itertools.combinations(g.neighbors(n), 3)]")], "C19", "Unsupported"),
    ("calc_angles NEUTRAL: locals renamed, explicit concatenation", "neutral", U,
     [("    for n in g.nodes:\n        angles += [(a, n, b) for (a,b) in itertools.combinations(g.neighbors(n), 2)]\n",
       "    for centre in g.nodes:\n        new = [(x, centre, y) for (x, y) in itertools.combinations(g.neighbors(centre), 2)]\n        angles = angles + new\n")], "C19", "pass"),
    # ---- batch 8, item 1: calc_dihedrals
    ("calc_dihedrals: a_neighbors.remove(b) dropped", "breaking", U, [("        a_neighbors.remove(b)\n", "")], "C19", "fail"),
    ("calc_dihedrals: b_neighbors.remove(a) -> remove(b)", "breaking", U, [("        b_neighbors.remove(a)\n", "        b_neighbors.remove(b)\n")], "C19", "fail"),
    ("calc_dihedrals: (a1, a, b, b1) -> (a1, b, a, b1)", "breaking", U,
     [("dihedrals += [(a1, a, b, b1) for a1", "dihedrals += [(a1, b, a, b1) for a1")], "C19", "fail"),
    ("calc_dihedrals: generators exchanged (b1 outer)", "breaking", U,
     [("for a1 in a_neighbors for b1 in b_neighbors]", "for b1 in b_neighbors for a1 in a_neighbors]")], "C19", "fail"),
    ("calc_dihedrals: b_neighbors = list(g.adj[a])", "breaking", U, [("        b_neighbors = list(g.adj[b])\n", "        b_neighbors = list(g.adj[a])\n")], "C19", "fail"),
    ("calc_dihedrals: loop over the bond list instead of g.edges", "breaking", U, [("    for a, b in g.edges:\n", "    for a, b in bonds:\n")], "C19", "fail"),
    ("calc_dihedrals: dihedrals = … instead of +=", "breaking", U,
     [("        dihedrals += [(a1, a, b, b1) for a1", "        dihedrals = [(a1, a, b, b1) for a1")], "C19", "fail"),
    ("calc_dihedrals NEUTRAL: g.neighbors instead of g.adj, locals renamed, explicit concatenation", "neutral", U,
     [("        a_neighbors = list(g.adj[a])\n        a_neighbors.remove(b)\n        b_neighbors = list(g.adj[b])\n        b_neighbors.remove(a)\n\n        dihedrals += [(a1, a, b, b1) for a1 in a_neighbors for b1 in b_neighbors]\n",
       "        left = list(g.neighbors(a))\n        left.remove(b)\n        right = list(g.neighbors(b))\n        right.remove(a)\n        new = [(x, a, b, y) for x in left for y in right]\n        dihedrals = dihedrals + new\n")], "C19", "pass"),
    # ---- batch 8, item 2: the type-numbering slice of assign_bond_types / assign_angle_types
    ("assign_bond_types: dict.fromkeys -> set", "unsupported", U,
     [("unique_bond_types = list(dict.fromkeys(bond_types).keys())", "unique_bond_types = list(set(bond_types))")], "C19", "Unsupported"),
    ("assign_bond_types: len(exclude) >= 2 -> > 2", "breaking", U,
     [("    if exclude is not None and len(exclude) >= 2:", "    if exclude is not None and len(exclude) > 2:")], "C19", "fail"),
    ("assign_angle_types: len(exclude) >= 3 -> >= 2", "breaking", U,
     [("    if exclude is not None and len(exclude) >= 3:", "    if exclude is not None and len(exclude) >= 2:")], "C19", "fail"),
    ("assign_bond_types: typekey dropped from the keys", "breaking", U,
     [("bond_types = [typekey([uff_atom_types[a] for a in atup]) for atup in atoms.bonds]", "bond_types = [[uff_atom_types[a] for a in atup] for atup in atoms.bonds]")], "C19", "fail"),
    ("assign_angle_types: numbered against the reversed unique list", "breaking", U,
     [("    unique_angle_types = list(dict.fromkeys(angle_types).keys())\n", "    unique_angle_types = list(dict.fromkeys(angle_types).keys())\n    unique_angle_types.reverse()\n")], "C19", "fail"),
    ("assign_bond_types: exclusion result not stored", "breaking", U,
     [("            atoms.bonds = delete_if_all_in_set(atoms.bonds, exclude)\n", "            delete_if_all_in_set(atoms.bonds, exclude)\n")], "C19", "fail"),
    ("assign_bond_types NEUTRAL: list(dict.fromkeys(..)) without .keys(), locals renamed", "neutral", U,
     [("    unique_bond_types = list(dict.fromkeys(bond_types).keys())\n    # bond_types are the index of the type in the unique_bond_types list\n    atoms.bond_types = [unique_bond_types.index(bt) for bt in bond_types]\n",
       "    uniq = list(dict.fromkeys(bond_types))\n    atoms.bond_types = [uniq.index(k) for k in bond_types]\n    unique_bond_types = uniq\n")], "C19", "pass"),
    ("getitem NEUTRAL: keywords reordered", "neutral", A,
     [("        return Atoms(positions=np.take(self.positions, idx, axis=0),\n                     atom_types=np.take(self.atom_types, idx, axis=0),\n",
       "        return Atoms(atom_types=np.take(self.atom_types, idx, axis=0),\n                     positions=np.take(self.positions, idx, axis=0),\n")], "C09", "pass"),
]

_IMPORT = re.compile(r"^import\s+(\S+)\s*$", re.M)
GEN6 = "MofunModel.Generated.Code6"


def _uses_code6(mod, seen):
    if mod == GEN6:
        return True
    if mod in seen:
        return seen[mod]
    seen[mod] = False
    p = os.path.join(core.LEAN, *mod.split(".")) + ".lean"
    if mod.startswith(("MofunModel.Proofs.", "MofunModel.Props.")) and os.path.exists(p):
        seen[mod] = any(_uses_code6(m, seen) for m in _IMPORT.findall(open(p).read()))
    return seen[mod]


def scratch_file(ids, code6_text):
    """one Lean file = generated Code6.lean + the lemma files that depend on it + the Props files, imports merged"""
    seen, order = {}, []

    def visit(mod):
        if mod in order or mod == GEN6 or not _uses_code6(mod, seen):
            return
        for m in _IMPORT.findall(open(os.path.join(core.LEAN, *mod.split(".")) + ".lean").read()):
            visit(m)
        order.append(mod)
    for i in ids:
        visit("MofunModel.Props.%sCode6" % i)
        if os.path.exists(os.path.join(core.LEAN, "MofunModel", "Props", "%sCode8.lean" % i)):      # batch 8 (same generated file)
            visit("MofunModel.Props.%sCode8" % i)
    parts = [code6_text] + [open(os.path.join(core.LEAN, *m.split(".")) + ".lean").read() for m in order]
    own = set(order) | {GEN6}
    imports = []
    for p in parts:
        for m in _IMPORT.findall(p):
            if m not in own and m not in imports:
                imports.append(m)
    body = "\n".join(_IMPORT.sub("", p) for p in parts)
    return "".join("import %s\n" % m for m in imports) + body


def theorem_at(lines, lineno):
    for i in range(min(lineno, len(lines)) - 1, -1, -1):
        m = re.match(r"\s*(?:private\s+)?(theorem|example|def)\s+(\S+)?", lines[i])
        if m:
            return (m.group(2) or "example") if m.group(1) != "example" else "example@%d" % (i + 1)
    return "?"


def run_one(name, kind, file, edits, ids, expect):
    shutil.rmtree(COPY, ignore_errors=True)
    shutil.rmtree(SCRATCH, ignore_errors=True)
    os.makedirs(SCRATCH)
    subprocess.run(["rsync", "-a", "--exclude", ".git", "/repo/", COPY + "/"], check=True)
    if file:
        p = os.path.join(COPY, file)
        s = open(p).read()
        for old, new in edits:
            if s.count(old) != 1:
                return "%-78s MUTATION-DID-NOT-APPLY (%d occurrences of %r)" % (name, s.count(old), old[:40])
            s = s.replace(old, new)
        open(p, "w").write(s)
    try:
        files = gen_code.render(COPY)
    except gen_code.Unsupported as e:
        got = "Unsupported"
        return "%-78s [%s] %s translator: Unsupported(%s)" % (name, kind, "ok " if expect == "Unsupported" else "UNEXPECTED", str(e)[:100])
    real = open(os.path.join(core.LEAN, "MofunModel", "Generated", "Code.lean")).read()
    real6 = open(os.path.join(core.LEAN, "MofunModel", "Generated", "Code6.lean")).read()
    note = "" if files["Code.lean"] == real else " (Code.lean differs too: its own theorems are not re-checked here)"
    text = scratch_file(ids.split(), files["Code6.lean"])
    f = os.path.join(SCRATCH, "Scratch.lean")
    open(f, "w").write(text)
    r = subprocess.run(["lake", "env", "lean", f], cwd=core.LEAN, stdout=subprocess.PIPE, stderr=subprocess.STDOUT, text=True)
    lines = text.split("\n")
    bad = []
    for m in re.finditer(r"Scratch\.lean:(\d+):\d+: error", r.stdout):
        t = theorem_at(lines, int(m.group(1)))
        if t not in bad:
            bad.append(t)
    got = "pass" if r.returncode == 0 else "fail"
    verdict = "all equivalence theorems elaborate" if r.returncode == 0 else "NO LONGER ELABORATE: " + ", ".join(bad)
    return "%-78s [%s] %s generated text %s; %s%s" % (name, kind, "ok " if got == expect else "UNEXPECTED", "unchanged" if files["Code6.lean"] == real6 else "differs", verdict, note)


def python_side():
    """the library conventions the prelude Py6 writes down, checked against the installed numpy / networkx"""
    import numpy as np
    a = np.array([10, 11, 12, 13])
    assert list(np.delete(a, [-1, 3, -1], axis=0)) == [10, 11, 12]            # negative wraps, a repeated row goes once
    assert list(np.delete(a, [], axis=0)) == [10, 11, 12, 13]
    for bad in ([4], [-5]):
        try:
            np.delete(a, bad, axis=0)
            raise AssertionError("np.delete accepted %r" % bad)
        except IndexError:
            pass
    assert list(np.take(a, [-1, 0, 0], axis=0)) == [13, 10, 10]              # order and repetitions of idx
    try:
        np.take(a, [4], axis=0)
        raise AssertionError
    except IndexError:
        pass
    # Py6.meshgridT3: rows (x, y, z), z slowest, then x, then y
    for da in range(0, 4):
        for db in range(0, 4):
            for dc in range(0, 4):
                got = np.array(np.meshgrid(*[range(r) for r in (da, db, dc)])).T.reshape(-1, 3)
                want = [(i, j, k) for k in range(dc) for i in range(da) for j in range(db)]
                assert [tuple(int(v) for v in row) for row in got] == want, (da, db, dc)
                kept = got[np.any(got != 0, axis=1)]
                assert [tuple(int(v) for v in row) for row in kept] == [m for m in want if m != (0, 0, 0)]
    got = np.array(np.meshgrid([5, 6], [7, 8, 9], [1, 2])).T.reshape(-1, 3)
    assert [tuple(int(v) for v in r) for r in got][:4] == [(5, 7, 1), (5, 8, 1), (5, 9, 1), (6, 7, 1)]
    cell = np.array([[1., 2, 3], [4, 5, 6], [7, 8, 10]])
    assert list(np.matmul(cell.T, np.array([1, 0, 2]))) == [15., 18., 23.]           # the example of Props/C12Code6.lean
    # Py6.vecAddRows / cdistSqCol / anyDistLt against numpy + scipy
    from scipy.spatial import distance
    rows = np.array([1., 2., 3.]) + np.array([[0., 0., 0.], [1., 0., 0.], [0., -2., 0.]])
    assert rows.tolist() == [[1., 2., 3.], [2., 2., 3.], [1., 0., 3.]]
    ss = distance.cdist(rows, [[1., 2., 0.]], "euclidean")
    assert ss.shape == (3, 1) and [round(float(v) ** 2, 9) for v in ss[:, 0]] == [9., 10., 13.]
    for c in (-1., 0., 3., 3.0000001, 3.7):
        assert bool(np.any(ss < c)) == (0 < c and any(d < c * c for d in (9., 10., 13.))), c
    assert [1, 2, 3, 4][2 + 1:] == [4] and [1, 2][5:] == []
    # Py6.nxNodes / nxNeighbors / combinations2 against the installed networkx / itertools (the examples of Props/C19Code6.lean)
    import itertools
    import networkx as nx

    def dedup(xs):
        return list(dict.fromkeys(xs))

    def nodes(edges):
        return dedup([v for e in edges for v in e])

    def neighbors(edges, n):
        return dedup([(e[1] if e[0] == n else e[0]) for e in edges if n in e])

    def comb2(xs):
        return [(xs[i], xs[j]) for i in range(len(xs)) for j in range(i + 1, len(xs))]

    def edges_of(edges):                       # Py6.nxEdges: nodes in order, neighbours in order, completed nodes skipped
        out, seen = [], []
        for n in nodes(edges):
            out += [(n, m) for m in neighbors(edges, n) if m not in seen]
            seen.append(n)
        return out

    def remove(xs, v):                         # Py6.listRemove?
        if v not in xs:
            return None
        i = xs.index(v)
        return xs[:i] + xs[i + 1:]
    g = nx.Graph(); g.add_edges_from([(2, 1), (1, 3), (1, 0), (3, 4)])
    assert list(g.nodes) == [2, 1, 3, 0, 4] and list(g.neighbors(1)) == [2, 3, 0] == list(g.adj[1])
    g2 = nx.Graph(); g2.add_edges_from([(2, 1), (1, 2), (1, 1), (2, 1)])
    assert list(g2.neighbors(1)) == [2, 1]
    assert list(itertools.combinations([2, 3, 0], 2)) == [(2, 3), (2, 0), (3, 0)]
    # batch 8: g.edges, list.remove (the examples of Props/C19Code8.lean)
    assert list(g.edges) == [(2, 1), (1, 3), (1, 0), (3, 4)] and list(g2.edges) == [(2, 1), (1, 1)]
    g3 = nx.Graph(); g3.add_edges_from([(0, 1), (2, 3), (3, 1), (2, 0)])
    assert list(g3.edges) == [(0, 1), (0, 2), (1, 3), (2, 3)]
    xs = [2, 3, 2, 0]; xs.remove(2)
    assert xs == [3, 2, 0] == remove([2, 3, 2, 0], 2) and remove([2, 3, 0], 5) is None
    try:
        [2, 3, 0].remove(5)
        raise AssertionError
    except ValueError:
        pass
    assert [(x, y) for x in [1, 2] for y in [7, 8, 9]] == [(1, 7), (1, 8), (1, 9), (2, 7), (2, 8), (2, 9)]
    assert list(dict.fromkeys([3, 1, 3, 2, 1]).keys()) == [3, 1, 2] == list(dict.fromkeys([3, 1, 3, 2, 1]))      # Py6.fromkeysList
    assert list(dict.fromkeys([("b", "a"), ("a",), ("b", "a")])) == [("b", "a"), ("a",)]
    assert [3, 1, 2, 1].index(1) == 1 and [3, 1, 2].index(2) == 2                                                # Py6.listIndex?
    try:
        [3, 1, 2].index(5)
        raise AssertionError
    except ValueError:
        pass
    assert len({1, 2, 2}) == 2                                                                                   # Py.setLen on `exclude`
    import random
    rnd = random.Random(6)
    for _ in range(300):
        edges = [(rnd.randrange(6), rnd.randrange(6)) for _ in range(rnd.randrange(9))]
        g = nx.Graph(); g.add_edges_from(np.array(edges).reshape(-1, 2).tolist())
        assert list(g.nodes) == nodes(edges), edges
        assert [tuple(e) for e in g.edges] == edges_of(edges), edges
        for n in g.nodes:
            assert list(g.neighbors(n)) == neighbors(edges, n) == list(g.adj[n]), (edges, n)
            assert list(itertools.combinations(g.neighbors(n), 2)) == comb2(neighbors(edges, n))
    return "python side: numpy / scipy / networkx / itertools conventions of Py6 hold"


def main():
    sel = sys.argv[1:]
    try:
        for m in MUTATIONS:
            if sel and not any(s in m[0] for s in sel):
                continue
            print(run_one(*m), flush=True)
        if not sel:
            print(python_side())
    finally:
        shutil.rmtree(COPY, ignore_errors=True)
        shutil.rmtree(SCRATCH, ignore_errors=True)


if __name__ == "__main__":
    sys.exit(main())
