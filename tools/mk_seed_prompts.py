#!/venv/bin/python
"""Write the prompts for one round of independently seeded breaking changes (one per property) and create the scratch
worktrees.  The prompt contains ONLY the property's text (title, statement, quantifier, anchored file names), the test
command and — so that rounds do not repeat each other — a one-line description of every change site already kept under
/verif/seeded (old line -> new line, nothing about how it was caught).  Nothing else from /verif is given to the agent.

usage: tools/mk_seed_prompts.py ROUND [--twist FILE]      e.g.  tools/mk_seed_prompts.py 6 --twist /tmp/twist6.txt
writes /tmp/seed<ROUND>_prompt_<ID>.txt, creates worktrees /tmp/seed<ROUND>_<ID> (detached at /repo's HEAD)."""
import json
import os
import re
import subprocess
import sys

VERIF = os.path.dirname(os.path.dirname(os.path.abspath(__file__)))


def tried(pid):
    out = []
    sd = os.path.join(VERIF, "seeded")
    for name in sorted(os.listdir(sd)):
        if not name.startswith(pid + "-"):
            continue
        p = os.path.join(sd, name, "patch.diff")
        if not os.path.exists(p):
            continue
        cur, minus, plus, hunkctx = None, [], [], ""
        def flush():
            if cur and (minus or plus):
                out.append("  - %s (%s): `%s` -> `%s`" % (cur, hunkctx.strip()[:60], (minus[0] if minus else "")[:90], (plus[0] if plus else "")[:90]))
        for line in open(p, errors="replace"):
            if line.startswith("+++ "):
                flush(); minus, plus = [], []
                cur = re.sub(r"^b/", "", line[4:].strip())
            elif line.startswith("@@"):
                flush(); minus, plus = [], []
                hunkctx = line.split("@@")[-1]
            elif line.startswith("-") and not line.startswith("---"):
                minus.append(line[1:].strip())
            elif line.startswith("+") and not line.startswith("+++"):
                plus.append(line[1:].strip())
        flush()
    return out


def main():
    rnd = sys.argv[1]
    twist = ""
    if "--twist" in sys.argv:
        twist = open(sys.argv[sys.argv.index("--twist") + 1]).read().strip()
    for line in open(os.path.join(VERIF, "properties.jsonl")):
        p = json.loads(line)
        pid = p["id"]
        wt = "/tmp/seed%s_%s" % (rnd, pid)
        outd = "/tmp/seedout%s_%s" % (rnd, pid)
        if not os.path.exists(wt):
            subprocess.run(["git", "-C", "/repo", "worktree", "add", "--detach", "-q", wt, "HEAD"], check=True)
        t = tried(pid)
        text = f"""You are a careful software engineer doing mutation seeding for a robustness study of the Python library WilmerLab/mofun. You have your OWN scratch git worktree of the library at {wt} (a detached checkout; work only there). Do NOT read or use anything under /verif, and do NOT modify /repo. The library's tests run with:
  cd {wt} && PYTHONPATH={wt} /venv/bin/python -m pytest -q -p no:cacheprovider --timeout=900
(first verify that `cd {wt} && PYTHONPATH={wt} /venv/bin/python -c "import mofun; print(mofun.__file__)"` prints a path inside {wt}). On the unmodified worktree 122 tests pass (12 skipped).

Here is a semantic property the library is supposed to satisfy:

Property {pid} — {p['title']}

Statement: {p['statement']}

Quantifier: {p['quantifier']['text']}

Files: {', '.join(p['anchors']['files'])}

"""
        if t:
            text += "\nALREADY TRIED by others (do NOT repeat these or variants at the same lines):\n" + "\n".join(t) + "\n"
        text += f"""
YOUR TASK: produce TWO different, independent, realistic changes (bugs a maintainer could plausibly introduce: an off-by-one, a wrong variable, a dropped term, a reordered step, a condition that is subtly too weak/strong, two sites that each look fine alone, an optimisation that is wrong for some inputs …) to the library source (files under {wt}/mofun only, not the tests) such that for EACH change:
  1. the library still imports and the FULL existing test suite still passes (same 122 passed) with the change applied;
  2. the property above is violated — but only under something specific: an unusual input, a multi-step sequence of operations, a particular combination of arguments, a boundary case, a particular data layout… NOT something that ordinary use or the simplest example would expose at once;
  3. you provide a demonstration: a small standalone Python program demo.py (run as `cd {wt} && PYTHONPATH={wt} /venv/bin/python demo.py`) that checks the property on a concrete input, exits 0 on the unmodified library and exits non-zero (with a short explanation printed) when the change is applied.
The changes should be small (1–6 lines each), must not be mere crashes on every call, must not touch table data files unless the property is about them, and the two should break the property in different ways / different code sites.
{twist}

Procedure for each change k ∈ {{1,2}}: edit the worktree; run the full test suite (must pass); run the demo (must fail); save `git -C {wt} diff > {outd}/change_k/patch.diff`; copy the demo to {outd}/change_k/demo.py; write {outd}/change_k/notes.txt (what was changed, why the tests do not notice, exactly what is needed for the violation to manifest); then `git -C {wt} checkout -- .` and confirm the demo passes again (exit 0) and the worktree is clean. Create {outd} yourself. Leave the worktree clean at the end (also remove any file the test suite wrote into the worktree).

Keep your final message SHORT (at most 12 lines in total). Final message: for each change, one paragraph: the edit (file/function), what input/sequence makes the property fail, and the confirmation outputs (tests passed count with the change; demo exit codes with/without).
"""
        open("/tmp/seed%s_prompt_%s.txt" % (rnd, pid), "w").write(text)
        print(pid, len(t), "tried sites")


if __name__ == "__main__":
    main()
