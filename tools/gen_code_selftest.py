#!/venv/bin/python
"""Self-test of the code translator (harness/gen_code.py) WITHOUT touching /repo or the real Generated/Code.lean.

For every mutation below: copy /repo to /tmp/mut_E3, edit the copy (exact text replacement inside one function),
run `gen_code.regenerate(copy, out_dir=scratch)`, concatenate scratch Code.lean + Proofs/CodeLemmas.lean +
Props/<ID>Code.lean into ONE scratch file (the import lines of the three files merged, minus the imports of each
other) and elaborate it with `lake env lean`.  Reported per mutation: does the translator accept the function, does
the generated text differ, which theorems no longer elaborate.  The copy and the scratch files are deleted afterwards.

usage: tools/gen_code_selftest.py [name-substring …]
(Validation of the machinery only — not a registered check.)"""
import os
import re
import shutil
import subprocess
import sys

VERIF = os.path.dirname(os.path.dirname(os.path.abspath(__file__)))
sys.path.insert(0, VERIF)
from harness import core, gen_code  # noqa: E402

COPY = "/tmp/mut_E3"
SCRATCH = "/tmp/mut_E3_out"

# (name, kind, file, [(old text, new text)], Props id, expectation)
MUTATIONS = [
    ("unchanged", "control", None, [], "C17 C19 C18 C09", "all pass"),
    # ---- meaning-changing edits (the brief's four, plus further ones)
    ("max_bond_length: or -> and", "breaking", "mofun/detect_bonds.py",
     [("if el1 in NON_METALS or el2 in NON_METALS:", "if el1 in NON_METALS and el2 in NON_METALS:")], "C17", "fail"),
    ("max_bond_length: 0.45 -> 0.4", "breaking", "mofun/detect_bonds.py",
     [("COVALENT_RADII[el2] + 0.45", "COVALENT_RADII[el2] + 0.4")], "C17", "fail"),
    ("max_bond_length: second radius of el1", "breaking", "mofun/detect_bonds.py",
     [("        return COVALENT_RADII[el1] + COVALENT_RADII[el2]\n", "        return COVALENT_RADII[el1] + COVALENT_RADII[el1]\n")], "C17", "fail"),
    ("typekey: <= -> <   (EQUIVALENT: equal tuples)", "neutral", "mofun/helpers.py",
     [("if tuple(rev) <= tuple(tup):", "if tuple(rev) < tuple(tup):")], "C19", "pass"),
    ("typekey: <= -> >=", "breaking", "mofun/helpers.py",
     [("if tuple(rev) <= tuple(tup):", "if tuple(rev) >= tuple(tup):")], "C19", "fail"),
    ("typekey: reverse() dropped", "breaking", "mofun/helpers.py", [("    rev.reverse()\n", "")], "C19", "fail"),
    ("guess_bond_order: 'O_3' dropped from the single-bond set   (EQUIVALENT: the default is 1 too; only the stderr warning differs)",
     "neutral", "mofun/rough_uff.py",
     [("'C_3', 'N_3', 'O_3'} & bond_atom_types", "'C_3', 'N_3'} & bond_atom_types")], "C18", "pass"),
    ("guess_bond_order: 'O_2' dropped from the double-bond set", "breaking", "mofun/rough_uff.py",
     [("bond_atom_types <= {'C_2', 'N_2', 'O_2'}", "bond_atom_types <= {'C_2', 'N_2'}")], "C18", "fail"),
    ("guess_bond_order: 'C_R' added to the single-bond set", "breaking", "mofun/rough_uff.py",
     [("'C_3', 'N_3', 'O_3'} & bond_atom_types", "'C_3', 'N_3', 'O_3', 'C_R'} & bond_atom_types")], "C18", "fail"),
    ("guess_bond_order: and -> or in the resonant test", "breaking", "mofun/rough_uff.py",
     [("elif len(bond_atom_types) == 1 and bond_atom_types <= {'C_R', 'N_R', 'O_R'}:", "elif len(bond_atom_types) == 1 or bond_atom_types <= {'C_R', 'N_R', 'O_R'}:")], "C18", "fail"),
    ("guess_bond_order: 1.5 -> 1.4", "breaking", "mofun/rough_uff.py", [("        return 1.5\n", "        return 1.4\n")], "C18", "fail"),
    ("guess_bond_order: rule test == -> <=", "breaking", "mofun/rough_uff.py",
     [("if bond_atom_types == rule_atom_types:", "if bond_atom_types <= rule_atom_types:")], "C18", "fail"),
    ("num_bond_types: max(...) -> len(...)", "breaking", "mofun/atoms.py",
     [("return max(len(self.bond_type_coeffs), max(self.bond_types) + 1)", "return max(len(self.bond_type_coeffs), len(self.bond_types) + 1)")], "C09", "fail"),
    ("num_angle_types: + 1 dropped", "breaking", "mofun/atoms.py",
     [("return max(len(self.angle_type_coeffs), max(self.angle_types) + 1)", "return max(len(self.angle_type_coeffs), max(self.angle_types))")], "C09", "fail"),
    ("num_improper_types: guard dropped (max of empty list raises)", "breaking", "mofun/atoms.py",
     [("        if len(self.improper_types) == 0:\n            return len(self.improper_type_coeffs)\n", "")], "C09", "fail"),
    ("angle_params: n = 3 -> n = 2 for 120 degrees", "breaking", "mofun/rough_uff.py",
     [("            n = 3\n            b = -1\n", "            n = 2\n            b = -1\n")], "C18", "fail"),
    ("angle_params: coordination test '3' -> '4'", "breaking", "mofun/rough_uff.py",
     [('a2_coord_is_4 = (a2[2] == "3")', 'a2_coord_is_4 = (a2[2] == "4")')], "C18", "fail"),
    ("dihedral_params: sp2-sp2 set loses 'R'", "breaking", "mofun/rough_uff.py",
     [("elif {h[1], h[2]} <= {'2', 'R'}:", "elif {h[1], h[2]} <= {'2'}:")], "C18", "fail"),
    ("dihedral_params: oxygen exception `not in` -> `in`", "breaking", "mofun/rough_uff.py",
     [("if (h[1] == '3' and el[1] in oxygen_group and el[2] not in oxygen_group)", "if (h[1] == '3' and el[1] in oxygen_group and el[2] in oxygen_group)")], "C18", "fail"),
    ("dihedral_params: default mixed n = 6 -> 3", "breaking", "mofun/rough_uff.py", [("        n = 6\n", "        n = 3\n")], "C18", "fail"),
    # ---- harmless rewrites
    ("max_bond_length: operands of `or` swapped", "neutral", "mofun/detect_bonds.py",
     [("if el1 in NON_METALS or el2 in NON_METALS:", "if el2 in NON_METALS or el1 in NON_METALS:")], "C17", "pass"),
    ("max_bond_length: summands swapped", "neutral", "mofun/detect_bonds.py",
     [("        return COVALENT_RADII[el1] + COVALENT_RADII[el2] + 0.45\n", "        return COVALENT_RADII[el2] + COVALENT_RADII[el1] + 0.45\n")], "C17", "pass"),
    ("typekey: local renamed", "neutral", "mofun/helpers.py",
     [("    rev = list(tup)\n    rev.reverse()\n    if tuple(rev) <= tuple(tup):\n        return tuple(rev)\n",
       "    r = list(tup)\n    r.reverse()\n    if tuple(r) <= tuple(tup):\n        return tuple(r)\n")], "C19", "pass"),
    ("guess_bond_order: local renamed, & operands swapped, set literal reordered", "neutral", "mofun/rough_uff.py",
     [("    bond_atom_types = {a1, a2}\n", "    bt = {a1, a2}\n"),
      ("            if bond_atom_types == rule_atom_types:", "            if rule_atom_types == bt:"),
      ("if len({'H_', 'F_', 'Cl', 'Br', 'I_', 'C_3', 'N_3', 'O_3'} & bond_atom_types) > 0:",
       "if len(bt & {'O_3', 'H_', 'F_', 'Cl', 'Br', 'I_', 'C_3', 'N_3'}) > 0:"),
      ("elif len(bond_atom_types) == 1 and bond_atom_types <= {'C_2', 'N_2', 'O_2'}:", "elif len(bt) == 1 and bt <= {'C_2', 'N_2', 'O_2'}:"),
      ("elif len(bond_atom_types) == 1 and bond_atom_types <= {'C_R', 'N_R', 'O_R'}:", "elif bt <= {'C_R', 'N_R', 'O_R'} and len(bt) == 1:")], "C18", "pass"),
    ("num_bond_types: arguments of the outer max swapped", "neutral", "mofun/atoms.py",
     [("return max(len(self.bond_type_coeffs), max(self.bond_types) + 1)", "return max(max(self.bond_types) + 1, len(self.bond_type_coeffs))")], "C09", "pass"),
    ("dihedral_params: operands of the sp2-neighbour `or` swapped", "neutral", "mofun/rough_uff.py",
     [("if {h[0], h[1]} <= {'2'} or {h[2], h[3]} <= {'2'}:", "if {h[2], h[3]} <= {'2'} or {h[0], h[1]} <= {'2'}:")], "C18", "pass"),
    # ---- leaving the subset
    ("max_bond_length: while loop added (outside the subset)", "unsupported", "mofun/detect_bonds.py",
     [('    """Return the maximum length of a bond between two elements"""\n', '    while False:\n        pass\n')], "C17", "Unsupported"),
]

_IMPORT = re.compile(r"^import\s+(\S+)\s*$", re.M)


def scratch_file(ids, code_text):
    """one Lean file = generated Code.lean + CodeLemmas + the Props files, imports merged"""
    parts = [code_text, open(os.path.join(core.LEAN, "MofunModel", "Proofs", "CodeLemmas.lean")).read()]
    marks = []
    for i in ids:
        parts.append(open(os.path.join(core.LEAN, "MofunModel", "Props", "%sCode.lean" % i)).read())
    own = {"MofunModel.Generated.Code", "MofunModel.Proofs.CodeLemmas"}
    imports = []
    for p in parts:
        for m in _IMPORT.findall(p):
            if m not in own and m not in imports:
                imports.append(m)
    body = "\n".join(_IMPORT.sub("", p) for p in parts)
    text = "".join("import %s\n" % m for m in imports) + body
    return text


def theorem_at(lines, lineno):
    for i in range(min(lineno, len(lines)) - 1, -1, -1):
        m = re.match(r"\s*(theorem|example|def)\s+(\S+)?", lines[i])
        if m:
            return (m.group(2) or "example") if m.group(1) != "example" else "example@%d" % (i + 1)
    return "?"


def run_one(name, kind, file, edits, ids, expect):
    shutil.rmtree(COPY, ignore_errors=True)
    shutil.rmtree(SCRATCH, ignore_errors=True)
    subprocess.run(["rsync", "-a", "--exclude", ".git", "/repo/", COPY + "/"], check=True)
    if file:
        p = os.path.join(COPY, file)
        s = open(p).read()
        for old, new in edits:
            if s.count(old) != 1:
                return "%-70s MUTATION-DID-NOT-APPLY (%d occurrences of %r)" % (name, s.count(old), old[:40])
            s = s.replace(old, new)
        open(p, "w").write(s)
    try:
        gen_code.regenerate(COPY, out_dir=SCRATCH)
    except gen_code.Unsupported as e:
        return "%-70s [%s] translator: Unsupported(%s)  -> proof side broken, as for an unparsable table" % (name, kind, str(e)[:110])
    code = open(os.path.join(SCRATCH, "Code.lean")).read()
    real = open(os.path.join(core.LEAN, "MofunModel", "Generated", "Code.lean")).read()
    ids = ids.split()
    text = scratch_file(ids, code)
    f = os.path.join(SCRATCH, "Scratch.lean")
    open(f, "w").write(text)
    r = subprocess.run(["lake", "env", "lean", f], cwd=core.LEAN, stdout=subprocess.PIPE, stderr=subprocess.STDOUT, text=True)
    lines = text.split("\n")
    bad = []
    for m in re.finditer(r"Scratch\.lean:(\d+):\d+: error", r.stdout):
        t = theorem_at(lines, int(m.group(1)))
        if t not in bad:
            bad.append(t)
    verdict = "all equivalence theorems elaborate" if r.returncode == 0 else "NO LONGER ELABORATE: " + ", ".join(bad)
    return "%-70s [%s] generated text %s; %s" % (name, kind, "unchanged" if code == real else "differs", verdict)


def main():
    sel = sys.argv[1:]
    try:
        for m in MUTATIONS:
            if sel and not any(s in m[0] for s in sel):
                continue
            print(run_one(*m), flush=True)
    finally:
        shutil.rmtree(COPY, ignore_errors=True)
        shutil.rmtree(SCRATCH, ignore_errors=True)


if __name__ == "__main__":
    sys.exit(main())
