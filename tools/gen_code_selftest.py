#!/venv/bin/python
"""Self-test of the code translator (harness/gen_code.py) WITHOUT touching /repo or the real Generated/Code.lean.

For every mutation below: copy /repo to /tmp/mut_E3, edit the copy (exact text replacement inside one function),
run `gen_code.regenerate(copy, out_dir=scratch)`, concatenate scratch Code.lean + Proofs/CodeLemmas.lean +
Props/<ID>Code.lean into ONE scratch file (the import lines of the three files merged, minus the imports of each
other) and elaborate it with `lake env lean`.  Reported per mutation: does the translator accept the function, does
the generated text differ, which theorems no longer elaborate.  The copy and the scratch files are deleted afterwards.

usage: tools/gen_code_selftest.py [name-substring …]
(Validation of the machinery only — not a registered check.)"""
import os
import re
import shutil
import subprocess
import sys

VERIF = os.path.dirname(os.path.dirname(os.path.abspath(__file__)))
sys.path.insert(0, VERIF)
from harness import core, gen_code  # noqa: E402

COPY = os.environ.get("MUT_COPY", "/tmp/mut_E3")          # MUT_COPY=/tmp/mut_tr5 when several agents run the tool at once
SCRATCH = COPY + "_out"

# (name, kind, file, [(old text, new text)], Props id, expectation)
MUTATIONS = [
    ("unchanged", "control", None, [], "C17 C19 C18 C09 C14 C10 C02 C20 C11 C03 C12 C13 C15 C16 C01 C01:7 C02:7 C03:7", "all pass"),
    # ---- meaning-changing edits (the brief's four, plus further ones)
    ("max_bond_length: or -> and", "breaking", "mofun/detect_bonds.py",
     [("if el1 in NON_METALS or el2 in NON_METALS:", "if el1 in NON_METALS and el2 in NON_METALS:")], "C17", "fail"),
    ("max_bond_length: 0.45 -> 0.4", "breaking", "mofun/detect_bonds.py",
     [("COVALENT_RADII[el2] + 0.45", "COVALENT_RADII[el2] + 0.4")], "C17", "fail"),
    ("max_bond_length: second radius of el1", "breaking", "mofun/detect_bonds.py",
     [("        return COVALENT_RADII[el1] + COVALENT_RADII[el2]\n", "        return COVALENT_RADII[el1] + COVALENT_RADII[el1]\n")], "C17", "fail"),
    ("typekey: <= -> <   (EQUIVALENT: equal tuples)", "neutral", "mofun/helpers.py",
     [("if tuple(rev) <= tuple(tup):", "if tuple(rev) < tuple(tup):")], "C19", "pass"),
    ("typekey: <= -> >=", "breaking", "mofun/helpers.py",
     [("if tuple(rev) <= tuple(tup):", "if tuple(rev) >= tuple(tup):")], "C19", "fail"),
    ("typekey: reverse() dropped", "breaking", "mofun/helpers.py", [("    rev.reverse()\n", "")], "C19", "fail"),
    ("guess_bond_order: 'O_3' dropped from the single-bond set   (EQUIVALENT: the default is 1 too; only the stderr warning differs)",
     "neutral", "mofun/rough_uff.py",
     [("'C_3', 'N_3', 'O_3'} & bond_atom_types", "'C_3', 'N_3'} & bond_atom_types")], "C18", "pass"),
    ("guess_bond_order: 'O_2' dropped from the double-bond set", "breaking", "mofun/rough_uff.py",
     [("bond_atom_types <= {'C_2', 'N_2', 'O_2'}", "bond_atom_types <= {'C_2', 'N_2'}")], "C18", "fail"),
    ("guess_bond_order: 'C_R' added to the single-bond set", "breaking", "mofun/rough_uff.py",
     [("'C_3', 'N_3', 'O_3'} & bond_atom_types", "'C_3', 'N_3', 'O_3', 'C_R'} & bond_atom_types")], "C18", "fail"),
    ("guess_bond_order: and -> or in the resonant test", "breaking", "mofun/rough_uff.py",
     [("elif len(bond_atom_types) == 1 and bond_atom_types <= {'C_R', 'N_R', 'O_R'}:", "elif len(bond_atom_types) == 1 or bond_atom_types <= {'C_R', 'N_R', 'O_R'}:")], "C18", "fail"),
    ("guess_bond_order: 1.5 -> 1.4", "breaking", "mofun/rough_uff.py", [("        return 1.5\n", "        return 1.4\n")], "C18", "fail"),
    ("guess_bond_order: rule test == -> <=", "breaking", "mofun/rough_uff.py",
     [("if bond_atom_types == rule_atom_types:", "if bond_atom_types <= rule_atom_types:")], "C18", "fail"),
    ("num_bond_types: max(...) -> len(...)", "breaking", "mofun/atoms.py",
     [("return max(len(self.bond_type_coeffs), max(self.bond_types) + 1)", "return max(len(self.bond_type_coeffs), len(self.bond_types) + 1)")], "C09", "fail"),
    ("num_angle_types: + 1 dropped", "breaking", "mofun/atoms.py",
     [("return max(len(self.angle_type_coeffs), max(self.angle_types) + 1)", "return max(len(self.angle_type_coeffs), max(self.angle_types))")], "C09", "fail"),
    ("num_improper_types: guard dropped (max of empty list raises)", "breaking", "mofun/atoms.py",
     [("        if len(self.improper_types) == 0:\n            return len(self.improper_type_coeffs)\n", "")], "C09", "fail"),
    ("angle_params: n = 3 -> n = 2 for 120 degrees", "breaking", "mofun/rough_uff.py",
     [("            n = 3\n            b = -1\n", "            n = 2\n            b = -1\n")], "C18", "fail"),
    ("angle_params: coordination test '3' -> '4'", "breaking", "mofun/rough_uff.py",
     [('a2_coord_is_4 = (a2[2] == "3")', 'a2_coord_is_4 = (a2[2] == "4")')], "C18", "fail"),
    ("dihedral_params: sp2-sp2 set loses 'R'", "breaking", "mofun/rough_uff.py",
     [("elif {h[1], h[2]} <= {'2', 'R'}:", "elif {h[1], h[2]} <= {'2'}:")], "C18", "fail"),
    ("dihedral_params: oxygen exception `not in` -> `in`", "breaking", "mofun/rough_uff.py",
     [("if (h[1] == '3' and el[1] in oxygen_group and el[2] not in oxygen_group)", "if (h[1] == '3' and el[1] in oxygen_group and el[2] in oxygen_group)")], "C18", "fail"),
    ("dihedral_params: default mixed n = 6 -> 3", "breaking", "mofun/rough_uff.py", [("        n = 6\n", "        n = 3\n")], "C18", "fail"),
    # ---- harmless rewrites
    ("max_bond_length: operands of `or` swapped", "neutral", "mofun/detect_bonds.py",
     [("if el1 in NON_METALS or el2 in NON_METALS:", "if el2 in NON_METALS or el1 in NON_METALS:")], "C17", "pass"),
    ("max_bond_length: summands swapped", "neutral", "mofun/detect_bonds.py",
     [("        return COVALENT_RADII[el1] + COVALENT_RADII[el2] + 0.45\n", "        return COVALENT_RADII[el2] + COVALENT_RADII[el1] + 0.45\n")], "C17", "pass"),
    ("typekey: local renamed", "neutral", "mofun/helpers.py",
     [("    rev = list(tup)\n    rev.reverse()\n    if tuple(rev) <= tuple(tup):\n        return tuple(rev)\n",
       "    r = list(tup)\n    r.reverse()\n    if tuple(r) <= tuple(tup):\n        return tuple(r)\n")], "C19", "pass"),
    ("guess_bond_order: local renamed, & operands swapped, set literal reordered", "neutral", "mofun/rough_uff.py",
     [("    bond_atom_types = {a1, a2}\n", "    bt = {a1, a2}\n"),
      ("            if bond_atom_types == rule_atom_types:", "            if rule_atom_types == bt:"),
      ("if len({'H_', 'F_', 'Cl', 'Br', 'I_', 'C_3', 'N_3', 'O_3'} & bond_atom_types) > 0:",
       "if len(bt & {'O_3', 'H_', 'F_', 'Cl', 'Br', 'I_', 'C_3', 'N_3'}) > 0:"),
      ("elif len(bond_atom_types) == 1 and bond_atom_types <= {'C_2', 'N_2', 'O_2'}:", "elif len(bt) == 1 and bt <= {'C_2', 'N_2', 'O_2'}:"),
      ("elif len(bond_atom_types) == 1 and bond_atom_types <= {'C_R', 'N_R', 'O_R'}:", "elif bt <= {'C_R', 'N_R', 'O_R'} and len(bt) == 1:")], "C18", "pass"),
    ("num_bond_types: arguments of the outer max swapped", "neutral", "mofun/atoms.py",
     [("return max(len(self.bond_type_coeffs), max(self.bond_types) + 1)", "return max(max(self.bond_types) + 1, len(self.bond_type_coeffs))")], "C09", "pass"),
    ("dihedral_params: operands of the sp2-neighbour `or` swapped", "neutral", "mofun/rough_uff.py",
     [("if {h[0], h[1]} <= {'2'} or {h[2], h[3]} <= {'2'}:", "if {h[2], h[3]} <= {'2'} or {h[0], h[1]} <= {'2'}:")], "C18", "pass"),
    # ---- second batch
    ("find_element: abs dropped from the key (one-sided nearest)", "breaking", "mofun/helpers.py",
     [("key=lambda kv: abs(kv[1] - elmass))", "key=lambda kv: kv[1] - elmass)")], "C14", "fail"),
    ("find_element: < max_delta -> <= max_delta", "breaking", "mofun/helpers.py",
     [("if abs(mass - elmass) < max_delta:", "if abs(mass - elmass) <= max_delta:")], "C14", "fail"),
    ("find_element: min -> max", "breaking", "mofun/helpers.py",
     [("sym, mass = min(ATOMIC_MASSES.items()", "sym, mass = max(ATOMIC_MASSES.items()")], "C14", "fail"),
    ("find_element: operands of both differences swapped, locals renamed", "neutral", "mofun/helpers.py",
     [("        sym, mass = min(ATOMIC_MASSES.items(), key=lambda kv: abs(kv[1] - elmass))\n        if abs(mass - elmass) < max_delta:\n            return sym\n",
       "        s, w = min(ATOMIC_MASSES.items(), key=lambda e: abs(elmass - e[1]))\n        if abs(elmass - w) < max_delta:\n            return s\n")], "C14", "pass"),
    ("pop: % len(self) dropped", "breaking", "mofun/atoms.py", [("del(self[[pos % len(self)]])", "del(self[[pos]])")], "C10", "fail"),
    ("pop: pos -> pos + 1", "breaking", "mofun/atoms.py", [("del(self[[pos % len(self)]])", "del(self[[(pos + 1) % len(self)]])")], "C10", "fail"),
    ("pop: default -1 -> 0", "breaking", "mofun/atoms.py", [("    def pop(self, pos=-1):", "    def pop(self, pos=0):")], "C10", "fail"),
    ("pop: index bound to a local first", "neutral", "mofun/atoms.py",
     [("        del(self[[pos % len(self)]])", "        i = pos % len(self)\n        del(self[[i]])")], "C10", "pass"),
    ("group_duplicates: new key gets an empty list", "breaking", "mofun/helpers.py",
     [("def group_duplicates(match_indices, key=lambda m: tuple(sorted(m))):\n    keyed_tuples = {}\n    for m in match_indices:\n        mkey = key(m)\n        if mkey not in keyed_tuples:\n            keyed_tuples[mkey] = [m]",
       "def group_duplicates(match_indices, key=lambda m: tuple(sorted(m))):\n    keyed_tuples = {}\n    for m in match_indices:\n        mkey = key(m)\n        if mkey not in keyed_tuples:\n            keyed_tuples[mkey] = []")], "C02", "fail"),
    ("group_duplicates: known key overwritten instead of appended", "breaking", "mofun/helpers.py",
     [("def group_duplicates(match_indices, key=lambda m: tuple(sorted(m))):\n    keyed_tuples = {}\n    for m in match_indices:\n        mkey = key(m)\n        if mkey not in keyed_tuples:\n            keyed_tuples[mkey] = [m]\n        else:\n            keyed_tuples[mkey].append(m)",
       "def group_duplicates(match_indices, key=lambda m: tuple(sorted(m))):\n    keyed_tuples = {}\n    for m in match_indices:\n        mkey = key(m)\n        if mkey not in keyed_tuples:\n            keyed_tuples[mkey] = [m]\n        else:\n            keyed_tuples[mkey] = [m]")], "C02", "fail"),
    ("group_duplicates: test written positively, branches exchanged, locals renamed", "neutral", "mofun/helpers.py",
     [("def group_duplicates(match_indices, key=lambda m: tuple(sorted(m))):\n    keyed_tuples = {}\n    for m in match_indices:\n        mkey = key(m)\n        if mkey not in keyed_tuples:\n            keyed_tuples[mkey] = [m]\n        else:\n            keyed_tuples[mkey].append(m)\n    return keyed_tuples",
       "def group_duplicates(match_indices, key=lambda m: tuple(sorted(m))):\n    keyed_tuples = {}\n    for t in match_indices:\n        k = key(t)\n        if k in keyed_tuples:\n            keyed_tuples[k].append(t)\n        else:\n            keyed_tuples[k] = [t]\n    return keyed_tuples")], "C02", "pass"),
    ("delete_if_all_in_set: == 0 -> > 0", "breaking", "mofun/rough_uff.py", [("if len(set(tup) - s) == 0:", "if len(set(tup) - s) > 0:")], "C19", "fail"),
    ("delete_if_all_in_set: difference reversed", "breaking", "mofun/rough_uff.py", [("if len(set(tup) - s) == 0:", "if len(s - set(tup)) == 0:")], "C19", "fail"),
    ("delete_if_all_in_set: subset test instead of empty difference, locals renamed", "neutral", "mofun/rough_uff.py",
     [("    deletion_list = []\n    for i, tup in enumerate(arr):\n        if len(set(tup) - s) == 0:\n            deletion_list.append(i)\n    return np.delete(arr, deletion_list, axis=0)",
       "    deletion_list = []\n    for k, t in enumerate(arr):\n        if set(t) <= s:\n            deletion_list.append(k)\n    return np.delete(arr, deletion_list, axis=0)")], "C19", "pass?"),
    ("mofun_cli: charges applied AFTER replicate (two steps re-ordered)", "breaking", "mofun/cli/mofun_cli.py",
     [("    if replicate is not None:\n        atoms = atoms.replicate(replicate)\n\n", ""),
      ("    # update charges\n", "    if replicate is not None:\n        atoms = atoms.replicate(replicate)\n\n    # update charges\n")], "C20", "fail"),
    ("mofun_cli: atol no longer passed to replace", "breaking", "mofun/cli/mofun_cli.py",
     [("replace_pattern_in_structure(atoms, search_pattern, replace_pattern, atol=atol,", "replace_pattern_in_structure(atoms, search_pattern, replace_pattern,")], "C20", "fail"),
    ("mofun_cli: hints dropped from find", "breaking", "mofun/cli/mofun_cli.py",
     [("results = find_pattern_in_structure(atoms, search_pattern, atol=atol,\n                axisp1_idx=axisp1_idx, axisp2_idx=axisp2_idx, opoint_idx=opoint_idx)", "results = find_pattern_in_structure(atoms, search_pattern, atol=atol)")], "C20", "fail"),
    ("mofun_cli: pp guard negated", "breaking", "mofun/cli/mofun_cli.py", [("    if pp:\n", "    if not pp:\n")], "C20", "fail"),
    ("mofun_cli: '.cml' accepted as native OUTPUT suffix", "breaking", "mofun/cli/mofun_cli.py",
     [("if outputpath.suffix in ['.lmpdat', '.mol', '.cif']:", "if outputpath.suffix in ['.lmpdat', '.mol', '.cif', '.cml']:")], "C20", "fail"),
    ("mofun_cli: replace pattern loaded before the search pattern", "breaking", "mofun/cli/mofun_cli.py",
     [("        search_pattern = Atoms.load(find_path)\n        if replace_path is not None:\n            replace_pattern = Atoms.load(replace_path)\n",
       "        if replace_path is not None:\n            replace_pattern = Atoms.load(replace_path)\n        search_pattern = Atoms.load(find_path)\n        if replace_path is not None:\n")], "C20", "fail"),
    ("mofun_cli: locals renamed, comments changed", "neutral", "mofun/cli/mofun_cli.py",
     [("        search_pattern = Atoms.load(find_path)\n", "        sp = Atoms.load(find_path)  # the pattern\n"),
      ("replace_pattern_in_structure(atoms, search_pattern, replace_pattern,", "replace_pattern_in_structure(atoms, sp, replace_pattern,"),
      ("results = find_pattern_in_structure(atoms, search_pattern,", "results = find_pattern_in_structure(atoms, sp,")], "C20", "pass"),
    # ---- third batch
    ("extend_types: arguments of the mass append swapped (seeded/C14-w2)", "breaking", "mofun/atoms.py",
     [("self.atom_type_masses = np.append(self.atom_type_masses, other.atom_type_masses)", "self.atom_type_masses = np.append(other.atom_type_masses, self.atom_type_masses)")], "C11", "fail"),
    ("extend_types: offsets taken AFTER the tables have grown", "breaking", "mofun/atoms.py",
     [("        offsets = (self.num_atom_types, self.num_bond_types,\n                   self.num_angle_types, self.num_dihedral_types, self.num_improper_types)\n\n", ""),
      ("        return offsets\n\n    def _extend_extra_fields", "        offsets = (self.num_atom_types, self.num_bond_types,\n                   self.num_angle_types, self.num_dihedral_types, self.num_improper_types)\n        return offsets\n\n    def _extend_extra_fields")], "C11", "fail"),
    ("extend_types: bond coefficients extended by other's ANGLE coefficients", "breaking", "mofun/atoms.py",
     [("self.bond_type_coeffs = np.append(self.bond_type_coeffs, other.bond_type_coeffs)", "self.bond_type_coeffs = np.append(self.bond_type_coeffs, other.angle_type_coeffs)")], "C11", "fail"),
    ("extend_types: two append statements exchanged", "neutral", "mofun/atoms.py",
     [("        self.atom_type_masses = np.append(self.atom_type_masses, other.atom_type_masses)\n        self.atom_type_labels = np.append(self.atom_type_labels, other.atom_type_labels)\n",
       "        self.atom_type_labels = np.append(self.atom_type_labels, other.atom_type_labels)\n        self.atom_type_masses = np.append(self.atom_type_masses, other.atom_type_masses)\n")], "C11", "pass"),
    ("near window guard: np.any(diag <= 0) -> np.prod(diag) <= 0 (seeded/C03-w1)", "breaking", "mofun/mofun.py",
     [("if not structure.cell_is_orthorhombic() or np.any(np.diag(cell) <= 0):", "if not structure.cell_is_orthorhombic() or np.prod(np.diag(cell)) <= 0:")], "C03", "fail"),
    ("near window guard: <= 0 -> < 0", "breaking", "mofun/mofun.py",
     [("or np.any(np.diag(cell) <= 0):", "or np.any(np.diag(cell) < 0):")], "C03", "fail"),
    ("near window guard: or -> and", "breaking", "mofun/mofun.py",
     [("if not structure.cell_is_orthorhombic() or np.any(", "if not structure.cell_is_orthorhombic() and np.any(")], "C03", "fail"),
    ("cell_is_orthorhombic: == -> <=", "breaking", "mofun/atoms.py",
     [("return (np.diag(self.cell) * np.identity(3) == self.cell).all()", "return (np.diag(self.cell) * np.identity(3) <= self.cell).all()")], "C03", "fail"),
    ("cell_is_orthorhombic: .all() -> .any()", "breaking", "mofun/atoms.py",
     [("return (np.diag(self.cell) * np.identity(3) == self.cell).all()", "return (np.diag(self.cell) * np.identity(3) == self.cell).any()")], "C03", "fail"),
    ("near window guard: operands of `or` swapped; cell_is_orthorhombic: sides of == swapped", "neutral", "mofun/mofun.py",
     [("if not structure.cell_is_orthorhombic() or np.any(np.diag(cell) <= 0):", "if np.any(np.diag(cell) <= 0) or not structure.cell_is_orthorhombic():")], "C03", "pass"),
    ("box test: cell[1] for cell[2] in the z bound (seeded/C03-w2)", "breaking", "mofun/mofun.py",
     [("pos[2] >= -distance and pos[2] < distance + cell[2]):", "pos[2] >= -distance and pos[2] < distance + cell[1]):")], "C03", "fail"),
    ("box test: upper x bound < -> <=", "breaking", "mofun/mofun.py",
     [("if (pos[0] >= -distance and pos[0] < distance + cell[0] and", "if (pos[0] >= -distance and pos[0] <= distance + cell[0] and")], "C03", "fail"),
    ("box test: comparisons written the other way round", "neutral", "mofun/mofun.py",
     [("if (pos[0] >= -distance and pos[0] < distance + cell[0] and", "if (-distance <= pos[0] and distance + cell[0] > pos[0] and")], "C03", "pass"),
    ("_delete_and_reindex: np.any -> np.all", "breaking", "mofun/atoms.py",
     [("if np.any([a in sorted_deleted_indices for a in atom_idx_tuple]):", "if np.all([a in sorted_deleted_indices for a in atom_idx_tuple]):")], "C10", "fail"),
    ("_delete_and_reindex: entries drop by 2", "breaking", "mofun/atoms.py",
     [("np.subtract(updated_arr, 1, out=updated_arr, where=updated_arr>i)", "np.subtract(updated_arr, 2, out=updated_arr, where=updated_arr>i)")], "C10", "fail"),
    ("_delete_and_reindex: re-index loop dropped", "breaking", "mofun/atoms.py",
     [("        for i in sorted_deleted_indices:\n            np.subtract(updated_arr, 1, out=updated_arr, where=updated_arr>i)\n", "")], "C10", "fail"),
    ("_delete_and_reindex: locals renamed", "neutral", "mofun/atoms.py",
     [("        for i, atom_idx_tuple in enumerate(arr):\n            if np.any([a in sorted_deleted_indices for a in atom_idx_tuple]):\n                arr_idx_to_delete.append(i)",
       "        for k, row in enumerate(arr):\n            if np.any([x in sorted_deleted_indices for x in row]):\n                arr_idx_to_delete.append(k)")], "C10", "pass"),
    ("replicate: cell scaled by COLUMNS (reshape(1, 3))", "breaking", "mofun/atoms.py",
     [("repl_atoms.cell = self.cell * np.array(repldims).reshape(3, 1)", "repl_atoms.cell = self.cell * np.array(repldims).reshape(1, 3)")], "C12", "fail"),
    ("replicate: factors of the product swapped", "neutral", "mofun/atoms.py",
     [("repl_atoms.cell = self.cell * np.array(repldims).reshape(3, 1)", "repl_atoms.cell = np.array(repldims).reshape(3, 1) * self.cell")], "C12", "pass"),
    ("Atoms.load: the cml branch calls load_p1_cif", "breaking", "mofun/atoms.py",
     [("            return cls.load_cml(fd or path, **kwargs)", "            return cls.load_p1_cif(fd or path, **kwargs)")], "C13", "fail"),
    ("Atoms.load: 'cml' branch tests 'xml'", "breaking", "mofun/atoms.py",
     [('        elif filetype == "cml":\n            return cls.load_cml', '        elif filetype == "xml":\n            return cls.load_cml')], "C13", "fail"),
    ("Atoms.save: the dot of the extension is kept", "breaking", "mofun/atoms.py",
     [("                _, filetype = os.path.splitext(path)\n                filetype = filetype[1:]\n\n        if filetype == \"lmpdat\":\n            with use_or_open(fd, path, mode='w') as fh:",
       "                _, filetype = os.path.splitext(path)\n\n        if filetype == \"lmpdat\":\n            with use_or_open(fd, path, mode='w') as fh:")], "C13", "fail"),
    ("Atoms.load: a file object without filetype no longer raises", "breaking", "mofun/atoms.py",
     [("            fd = f\n            if filetype is None:\n                raise Exception(\"If a File object is passed, a filetype must be passed with it\")\n        else:\n            # other cases are treated as either Pathlib path or strings\n            path = f\n            if filetype is None:\n                _, filetype = os.path.splitext(path)\n                filetype = filetype[1:]\n\n        if filetype == \"lmpdat\":\n            with use_or_open(fd, path) as fh:",
       "            fd = f\n            if filetype is None:\n                filetype = \"lmpdat\"\n        else:\n            # other cases are treated as either Pathlib path or strings\n            path = f\n            if filetype is None:\n                _, filetype = os.path.splitext(path)\n                filetype = filetype[1:]\n\n        if filetype == \"lmpdat\":\n            with use_or_open(fd, path) as fh:")], "C13", "fail"),
    ("Atoms.load: cif branch before cml branch", "neutral", "mofun/atoms.py",
     [('        elif filetype == "cml":\n            return cls.load_cml(fd or path, **kwargs)\n        elif filetype == "cif":\n            with use_or_open(fd, path) as fh:\n                return cls.load_p1_cif(fh, **kwargs)\n',
       '        elif filetype == "cif":\n            with use_or_open(fd, path) as fh:\n                return cls.load_p1_cif(fh, **kwargs)\n        elif filetype == "cml":\n            return cls.load_cml(fd or path, **kwargs)\n')], "C13", "pass"),
    # ---- fourth batch: the reverse of each repair of 2026-09-29 must fail
    ("__delitem__: REVERT ee36d79 (raw indices handed to the term code)", "breaking", "mofun/atoms.py",
     [("sorted_indices = sorted({i % num_atoms for i in indices}, reverse=True)", "sorted_indices = sorted(indices, reverse=True)")], "C10", "fail"),
    ("__delitem__: indices wrapped but repeats kept (list instead of set)", "breaking", "mofun/atoms.py",
     [("sorted_indices = sorted({i % num_atoms for i in indices}, reverse=True)", "sorted_indices = sorted([i % num_atoms for i in indices], reverse=True)")], "C10", "fail"),
    ("__delitem__: ascending instead of descending", "breaking", "mofun/atoms.py",
     [("sorted_indices = sorted({i % num_atoms for i in indices}, reverse=True)", "sorted_indices = sorted({i % num_atoms for i in indices}, reverse=False)")], "C10", "fail"),
    ("__delitem__: comprehension variable renamed", "neutral", "mofun/atoms.py",
     [("sorted_indices = sorted({i % num_atoms for i in indices}, reverse=True)", "sorted_indices = sorted({k % num_atoms for k in indices}, reverse=True)")], "C10", "pass"),
    ("__delitem__: len(self) read AFTER the per-atom arrays were shortened (seeded/C10-u1)", "breaking", "mofun/atoms.py",
     [("sorted_indices = sorted({i % num_atoms for i in indices}, reverse=True)", "sorted_indices = sorted({i % len(self) for i in indices}, reverse=True)")], "C10", "fail"),
    ("extend: REVERT 5777e16 (structure_index_map no longer normalised)", "breaking", "mofun/atoms.py",
     [("        structure_index_map = {plain_index(k, len(other)): plain_index(v, len(self))\n                               for k, v in structure_index_map.items()}\n", "")], "C11", "fail"),
    ("extend: plain_index returns i unchanged", "breaking", "mofun/atoms.py", [("            return i % n\n", "            return i\n")], "C11", "fail"),
    ("extend: keys read in self, values in other", "breaking", "mofun/atoms.py",
     [("structure_index_map = {plain_index(k, len(other)): plain_index(v, len(self))", "structure_index_map = {plain_index(k, len(self)): plain_index(v, len(other))")], "C11", "fail"),
    ("extend: plain_index accepts i == n", "breaking", "mofun/atoms.py", [("            if not -n <= i < n:", "            if not -n <= i <= n:")], "C11", "fail"),
    ("extend: range test of plain_index written with `and`", "neutral", "mofun/atoms.py",
     [("            if not -n <= i < n:", "            if not (i >= -n and i < n):")], "C11", "pass"),
    ("extend: REVERT c5d98a8 (offsets no longer padded)", "breaking", "mofun/atoms.py",
     [("            offsets = tuple(offsets) + (0,) * (5 - len(offsets))\n", "            pass\n")], "C11", "fail"),
    ("extend: offsets padded to four entries", "breaking", "mofun/atoms.py",
     [("offsets = tuple(offsets) + (0,) * (5 - len(offsets))", "offsets = tuple(offsets) + (0,) * (4 - len(offsets))")], "C11", "fail"),
    ("extend: offsets padded with ones", "breaking", "mofun/atoms.py",
     [("offsets = tuple(offsets) + (0,) * (5 - len(offsets))", "offsets = tuple(offsets) + (1,) * (5 - len(offsets))")], "C11", "fail"),
    ("extend: padding count clamped with max(0, …)", "neutral", "mofun/atoms.py",
     [("offsets = tuple(offsets) + (0,) * (5 - len(offsets))", "offsets = tuple(offsets) + (0,) * max(0, 5 - len(offsets))")], "C11", "pass"),
    ("load_lmpdat: REVERT ad79a2b (split at every '#')", "breaking", "mofun/atoms.py",
     [("line, comment = unprocessed_line.split('#', 1)", "line, comment = unprocessed_line.split('#')")], "C13", "fail"),
    ("load_lmpdat: REVERT 375e8ae (Masses lines no longer ordered by type id)", "breaking", "mofun/atoms.py",
     [("        masses.sort(key=lambda m: m[0])\n", "")], "C13", "fail"),
    ("load_lmpdat: Masses lines ordered by DESCENDING type id", "breaking", "mofun/atoms.py",
     [("masses.sort(key=lambda m: m[0])", "masses.sort(key=lambda m: -m[0])")], "C13", "fail"),
    ("load_lmpdat: lambda variable renamed", "neutral", "mofun/atoms.py",
     [("masses.sort(key=lambda m: m[0])", "masses.sort(key=lambda entry: entry[0])")], "C13", "pass"),
    ("mofun_cli: REVERT f7e45cd (no minimum of one copy per direction)", "breaking", "mofun/cli/mofun_cli.py",
     [("repls = np.maximum(1, np.array(np.ceil(2*mic / np.diag(atoms.cell)), dtype=int))", "repls = np.array(np.ceil(2*mic / np.diag(atoms.cell)), dtype=int)")], "C20", "fail"),
    ("mofun_cli: mic instead of 2*mic", "breaking", "mofun/cli/mofun_cli.py",
     [("np.ceil(2*mic / np.diag(atoms.cell))", "np.ceil(mic / np.diag(atoms.cell))")], "C20", "fail"),
    ("load_cml: REVERT f690cb1 (unqualified atom lookup)", "breaking", "mofun/atoms.py",
     [("root.findall('.//{*}atom')", "root.findall('.//atom')")], "C16", "fail"),
    ("load_cml: bond lookup finds atoms", "breaking", "mofun/atoms.py",
     [("root.findall('.//{*}bond')", "root.findall('.//{*}atom')"), ("atom_dicts = [a.attrib for a in root.findall('.//{*}atom')]", "atom_dicts = [a.attrib for a in root.findall('.//{*}atom')] ")], "C16", "fail"),
    ("load_p1_cif: REVERT efb958d (charges read with float)", "breaking", "mofun/atoms.py",
     [("charges = [tofloat(c) for c in block['_atom_site_charge']]", "charges = [float(c) for c in block['_atom_site_charge']]")], "C15", "fail"),
    ("uc_neighbor_offsets: meshgrid arguments give another image order ('ij' indexing)", "breaking", "mofun/mofun.py",
     [("np.array(np.meshgrid([-1, 0, 1],[-1, 0, 1],[-1, 0, 1])).T.reshape(-1, 1, 3)", "np.array(np.meshgrid([-1, 0, 1],[-1, 0, 1],[-1, 0, 1])).reshape(3, -1).T.reshape(-1, 1, 3)")], "C17", "fail"),
    ("uc_neighbor_offsets: cell not transposed in the product", "breaking", "mofun/mofun.py",
     [("np.matmul(uc_vectors.T, mult[0])", "np.matmul(uc_vectors, mult[0])")], "C17", "fail"),
    ("uc_neighbor_offsets: only the positive half of the multipliers", "breaking", "mofun/mofun.py",
     [("np.meshgrid([-1, 0, 1],[-1, 0, 1],[-1, 0, 1])", "np.meshgrid([0, 1],[0, 1],[0, 1])")], "C17", "fail"),
    ("uc_neighbor_offsets: comprehension variable renamed", "neutral", "mofun/mofun.py",
     [("np.array([np.matmul(uc_vectors.T, mult[0]) for mult in multipliers])", "np.array([np.matmul(uc_vectors.T, m[0]) for m in multipliers])")], "C17", "pass"),
    ("find: REVERT 8e95ae1 (final check with numpy's default rtol)", "breaking", "mofun/mofun.py",
     [("if np.allclose(atom_positions, chk_pattern.positions, rtol=0, atol=atol):", "if np.allclose(atom_positions, chk_pattern.positions, atol=atol):")], "C01", "fail"),
    ("find: final check with twice the tolerance", "breaking", "mofun/mofun.py",
     [("if np.allclose(atom_positions, chk_pattern.positions, rtol=0, atol=atol):", "if np.allclose(atom_positions, chk_pattern.positions, rtol=0, atol=2*atol):")], "C01", "fail"),
    ("find: REVERT f8394e0 (a structure atom may be used twice in a match)", "breaking", "mofun/mofun.py",
     [("if near_types[atom_idx] == pattern_elements[i] and near_indices[atom_idx] % len(structure) not in uc_atoms_in_match:", "if near_types[atom_idx] == pattern_elements[i]:")], "C01", "fail"),
    ("find: the images of a used atom are not excluded (no % len(structure))", "breaking", "mofun/mofun.py",
     [("uc_atoms_in_match = {near_indices[m] % len(structure) for m in match}", "uc_atoms_in_match = {near_indices[m] for m in match}")], "C01", "fail"),
    ("find: keyword arguments of the final check exchanged in order, comprehension variable renamed", "neutral", "mofun/mofun.py",
     [("if np.allclose(atom_positions, chk_pattern.positions, rtol=0, atol=atol):", "if np.allclose(atom_positions, chk_pattern.positions, atol=atol, rtol=0):"),
      ("uc_atoms_in_match = {near_indices[m] % len(structure) for m in match}", "uc_atoms_in_match = {near_indices[k] % len(structure) for k in match}")], "C01", "pass"),
    ("near window: REVERT 517adff (atoms outside the cell are not brought home)", "breaking", "mofun/mofun.py",
     [("        cells_away = np.floor(home_positions.dot(np.linalg.inv(cell)) + 1e-9)\n        home_positions = home_positions - cells_away.dot(cell)\n", "        pass\n")], "C01", "fail"),
    ("near window: cells_away without the 1e-9", "breaking", "mofun/mofun.py",
     [("cells_away = np.floor(home_positions.dot(np.linalg.inv(cell)) + 1e-9)", "cells_away = np.floor(home_positions.dot(np.linalg.inv(cell)))")], "C01", "fail"),
    ("near window: home image ADDED instead of subtracted", "breaking", "mofun/mofun.py",
     [("home_positions = home_positions - cells_away.dot(cell)", "home_positions = home_positions + cells_away.dot(cell)")], "C01", "fail"),
    ("near window: cell.dot(cells_away) (columns instead of rows)", "breaking", "mofun/mofun.py",
     [("home_positions = home_positions - cells_away.dot(cell)", "home_positions = home_positions - cell.dot(cells_away)")], "C01", "fail"),
    # ---- fifth batch: replace_pattern_in_structure
    ("unchanged (fifth batch)", "control", None, [], "C04:5", "all pass"),
    ("replace: round -> int (truncation: outside the subset)", "unsupported", "mofun/mofun.py",
     [("k=round(replace_fraction * len(match_positions))", "k=int(replace_fraction * len(match_positions))")], "C04:5", "Unsupported"),
    ("replace: sample size from one match fewer", "breaking", "mofun/mofun.py",
     [("k=round(replace_fraction * len(match_positions))", "k=round(replace_fraction * (len(match_positions) - 1))")], "C04:5", "fail"),
    ("replace: sample size rounded up (round(x + 0.5))", "breaking", "mofun/mofun.py",
     [("k=round(replace_fraction * len(match_positions))", "k=round(replace_fraction * len(match_positions) + 0.5)")], "C04:5", "fail"),
    ("replace: sample branch also for fraction 1 (< -> <=)", "breaking", "mofun/mofun.py",
     [("if replace_fraction < 1.0:", "if replace_fraction <= 1.0:")], "C04:5", "fail"),
    ("replace: factors of the sample size swapped, guard written as 1.0 > f", "neutral", "mofun/mofun.py",
     [("k=round(replace_fraction * len(match_positions))", "k=round(len(match_positions) * replace_fraction)"),
      ("if replace_fraction < 1.0:", "if 1.0 > replace_fraction:")], "C04:5", "pass"),
    ("unchanged (fifth batch, loop body)", "control", None, [], "C07:5", "all pass"),
    ("replace loop: linker set by union (- -> |)", "breaking", "mofun/mofun.py",
     [("to_delete_linker = set(match_indices[m_i]) - set(structure_index_map.values())", "to_delete_linker = set(match_indices[m_i]) | set(structure_index_map.values())")], "C07:5", "fail"),
    ("replace loop: retained atoms deleted too (difference dropped)", "breaking", "mofun/mofun.py",
     [("to_delete_linker = set(match_indices[m_i]) - set(structure_index_map.values())", "to_delete_linker = set(match_indices[m_i])")], "C07:5", "fail"),
    ("replace loop: linker set minus the KEYS of the map", "breaking", "mofun/mofun.py",
     [("set(structure_index_map.values())", "set(structure_index_map.keys())")], "C07:5", "Unsupported"),
    ("replace loop: `or ignore…` dropped (the opt-out is ignored)", "breaking", "mofun/mofun.py",
     [("if (to_delete.isdisjoint(to_delete_linker) or ignore_atoms_should_not_be_deleted_twice):", "if (to_delete.isdisjoint(to_delete_linker)):")], "C07:5", "fail"),
    ("replace loop: `or` -> `and`", "breaking", "mofun/mofun.py",
     [("if (to_delete.isdisjoint(to_delete_linker) or ignore_atoms_should_not_be_deleted_twice):", "if (to_delete.isdisjoint(to_delete_linker) and ignore_atoms_should_not_be_deleted_twice):")], "C07:5", "fail"),
    ("replace loop: overlap never raises (else branch merges too)", "breaking", "mofun/mofun.py",
     [("                raise AtomsShouldNotBeDeletedTwice()", "                to_delete |= set(to_delete_linker)")], "C07:5", "fail"),
    ("replace loop: the merge is dropped on success", "breaking", "mofun/mofun.py",
     [("                to_delete |= set(to_delete_linker)\n", "                pass\n")], "C07:5", "fail"),
    ("replace loop: index map built for replace_all too", "breaking", "mofun/mofun.py",
     [("            if not replace_all:\n                structure_index_map = {k:", "            if True:\n                structure_index_map = {k:")], "C07:5", "fail"),
    ("replace loop: index map from the FIRST match for every match", "breaking", "mofun/mofun.py",
     [("structure_index_map = {k: match_indices[m_i][v] for", "structure_index_map = {k: match_indices[0][v] for")], "C07:5", "fail"),
    ("replace loop: index map with keys and values exchanged", "breaking", "mofun/mofun.py",
     [("structure_index_map = {k: match_indices[m_i][v] for k,v in", "structure_index_map = {v: match_indices[m_i][k] for k,v in")], "C07:5", "fail"),
    ("replace: empty branch deletes only the first atom of every match", "breaking", "mofun/mofun.py",
     [("to_delete |= set([idx for match in match_indices for idx in match])", "to_delete |= set([match[0] for match in match_indices])")], "C07:5", "fail"),
    ("replace: empty-replacement test == 0 -> == 1", "breaking", "mofun/mofun.py",
     [("    if len(replace_pattern) == 0:", "    if len(replace_pattern) == 1:")], "C07:5", "fail"),
    ("replace loop: operands of `or` swapped, isdisjoint the other way round, comprehension variables renamed, test `0 == len(…)`",
     "neutral", "mofun/mofun.py",
     [("if (to_delete.isdisjoint(to_delete_linker) or ignore_atoms_should_not_be_deleted_twice):", "if (ignore_atoms_should_not_be_deleted_twice or to_delete_linker.isdisjoint(to_delete)):"),
      ("structure_index_map = {k: match_indices[m_i][v] for k,v in replace2search_pattern_map.items()}", "structure_index_map = {a: match_indices[m_i][b] for a,b in replace2search_pattern_map.items()}"),
      ("to_delete |= set([idx for match in match_indices for idx in match])", "to_delete |= set([i for t in match_indices for i in t])"),
      ("    if len(replace_pattern) == 0:", "    if 0 == len(replace_pattern):")], "C07:5", "pass"),
    ("replace loop: |= written out, set() around the linker dropped, list() inserted", "neutral", "mofun/mofun.py",
     [("                to_delete |= set(to_delete_linker)\n", "                to_delete = to_delete | to_delete_linker\n"),
      ("            to_delete_linker = set(match_indices[m_i]) - set(structure_index_map.values())\n",
       "            to_delete_linker = set(list(match_indices[m_i])) - set(structure_index_map.values())\n")], "C07:5", "pass"),
    ("unchanged (fifth batch, placement)", "control", None, [], "C05:5", "all pass"),
    ("replace placement: the two pre-translations exchanged", "breaking", "mofun/mofun.py",
     [("    replace_pattern.translate(-search_pattern.positions[0])\n    search_pattern.translate(-search_pattern.positions[0])\n",
       "    search_pattern.translate(-search_pattern.positions[0])\n    replace_pattern.translate(-search_pattern.positions[0])\n")], "C05:5", "fail"),
    ("replace placement: replace pattern moved by +P[0]", "breaking", "mofun/mofun.py",
     [("    replace_pattern.translate(-search_pattern.positions[0])\n", "    replace_pattern.translate(search_pattern.positions[0])\n")], "C05:5", "fail"),
    ("replace placement: replace pattern moved by its OWN first atom", "breaking", "mofun/mofun.py",
     [("    replace_pattern.translate(-search_pattern.positions[0])\n", "    replace_pattern.translate(-replace_pattern.positions[0])\n")], "C05:5", "fail"),
    ("replace placement: replace pattern not pre-translated", "breaking", "mofun/mofun.py",
     [("    replace_pattern.translate(-search_pattern.positions[0])\n", "")], "C05:5", "fail"),
    ("Atoms.translate: -= instead of +=", "breaking", "mofun/atoms.py",
     [("            self.positions += delta\n", "            self.positions -= delta\n")], "C05:5", "fail"),
    ("replace placement: wrap modulo the cell lengths (% np.diag(cell))", "unsupported", "mofun/mofun.py",
     [("new_atoms.positions.dot(np.linalg.inv(cell)) % 1.0).dot(cell)", "new_atoms.positions.dot(np.linalg.inv(cell)) % np.diag(cell)).dot(cell)")], "C05:5", "Unsupported"),
    ("replace placement: wrapped FRACTIONAL coordinates stored (second .dot(cell) dropped)", "breaking", "mofun/mofun.py",
     [("new_atoms.positions = (new_atoms.positions.dot(np.linalg.inv(cell)) % 1.0).dot(cell)", "new_atoms.positions = (new_atoms.positions.dot(np.linalg.inv(cell)) % 1.0)")], "C05:5", "fail"),
    ("replace placement: cell instead of its inverse", "breaking", "mofun/mofun.py",
     [("new_atoms.positions.dot(np.linalg.inv(cell)) % 1.0", "new_atoms.positions.dot(cell) % 1.0")], "C05:5", "fail"),
    ("replace placement: transposed inverse (columns instead of rows)", "breaking", "mofun/mofun.py",
     [("new_atoms.positions.dot(np.linalg.inv(cell)) % 1.0", "new_atoms.positions.dot(np.linalg.inv(cell).T) % 1.0")], "C05:5", "fail"),
    ("replace placement: shift of 1e-9 before the modulo", "breaking", "mofun/mofun.py",
     [("new_atoms.positions.dot(np.linalg.inv(cell)) % 1.0", "(new_atoms.positions.dot(np.linalg.inv(cell)) + 1e-9) % 1.0")], "C05:5", "fail"),
    ("replace placement: delta through a local, `% 1`, inverse bound to a local", "neutral", "mofun/mofun.py",
     [("    replace_pattern.translate(-search_pattern.positions[0])\n    search_pattern.translate(-search_pattern.positions[0])\n",
       "    shift = -search_pattern.positions[0]\n    replace_pattern.translate(shift)\n    search_pattern.translate(shift)\n"),
      ("            new_atoms.positions = (new_atoms.positions.dot(np.linalg.inv(cell)) % 1.0).dot(cell)",
       "            new_atoms.positions = (new_atoms.positions.dot(np.linalg.inv(cell)) % 1).dot(cell)")], "C05:5", "pass"),
    ("unchanged (fifth batch, find_unchanged_atom_pairs)", "control", None, [], "C08:5", "all pass"),
    ("find_unchanged_atom_pairs: < -> <=", "unsupported", "mofun/atoms.py",
     [("if norm(np.array(p2) - p1) < max_delta and", "if norm(np.array(p2) - p1) <= max_delta and")], "C08:5", "Unsupported"),
    ("find_unchanged_atom_pairs: break removed (every partner is appended)", "breaking", "mofun/atoms.py",
     [("                match_pairs.append((i,j))\n                break\n", "                match_pairs.append((i,j))\n")], "C08:5", "fail"),
    ("find_unchanged_atom_pairs: element test dropped", "breaking", "mofun/atoms.py",
     [("if norm(np.array(p2) - p1) < max_delta and orig_structure.elements[i] == final_structure.elements[j]:", "if norm(np.array(p2) - p1) < max_delta:")], "C08:5", "fail"),
    ("find_unchanged_atom_pairs: and -> or", "breaking", "mofun/atoms.py",
     [("< max_delta and orig_structure.elements[i]", "< max_delta or orig_structure.elements[i]")], "C08:5", "fail"),
    ("find_unchanged_atom_pairs: pairs appended as (j, i)", "breaking", "mofun/atoms.py",
     [("match_pairs.append((i,j))", "match_pairs.append((j,i))")], "C08:5", "fail"),
    ("find_unchanged_atom_pairs: twice the tolerance", "breaking", "mofun/atoms.py",
     [("if norm(np.array(p2) - p1) < max_delta and", "if norm(np.array(p2) - p1) < 2 * max_delta and")], "C08:5", "fail"),
    ("find_unchanged_atom_pairs: default max_delta 1e-5 -> 1e-4", "breaking", "mofun/atoms.py",
     [("def find_unchanged_atom_pairs(orig_structure, final_structure, max_delta=1e-5):", "def find_unchanged_atom_pairs(orig_structure, final_structure, max_delta=1e-4):")], "C08:5", "fail"),
    ("find_unchanged_atom_pairs: locals renamed, element test first, difference without np.array", "neutral", "mofun/atoms.py",
     [("    for i, p1 in enumerate(orig_structure.positions):\n        for j, p2 in enumerate(final_structure.positions):\n            if norm(np.array(p2) - p1) < max_delta and orig_structure.elements[i] == final_structure.elements[j]:\n                match_pairs.append((i,j))\n",
       "    for a, pa in enumerate(orig_structure.positions):\n        for b, pb in enumerate(final_structure.positions):\n            if final_structure.elements[b] == orig_structure.elements[a] and norm(pb - pa) < max_delta:\n                match_pairs.append((a,b))\n")], "C08:5", "pass"),
    ("unchanged (fifth batch, atoms_of_type)", "control", None, [], "C02:5", "all pass"),
    ("atoms_of_type: == -> !=", "breaking", "mofun/helpers.py",
     [("return [i for i, t in enumerate(types) if t == element]", "return [i for i, t in enumerate(types) if t != element]")], "C02:5", "fail"),
    ("atoms_of_type: filter dropped (every atom is a start atom)", "breaking", "mofun/helpers.py",
     [("return [i for i, t in enumerate(types) if t == element]", "return [i for i, t in enumerate(types)]")], "C02:5", "fail"),
    ("atoms_of_type: variables renamed, operands of == swapped", "neutral", "mofun/helpers.py",
     [("return [i for i, t in enumerate(types) if t == element]", "return [k for k, e in enumerate(types) if element == e]")], "C02:5", "pass"),
    # ---- seventh batch: hints, grouping key, reported tuples of find_pattern_in_structure; remove_duplicates
    ("find hints: elif `or` -> `and` (one given hint is no longer completed)", "breaking", "mofun/mofun.py",
     [("elif axisp1_idx is None or axisp2_idx is None:", "elif axisp1_idx is None and axisp2_idx is None:")], "C03:7", "fail"),
    ("find hints: first `and` -> `or` (a given hint is overwritten by the farthest pair)", "breaking", "mofun/mofun.py",
     [("if axisp1_idx is None and axisp2_idx is None:", "if axisp1_idx is None or axisp2_idx is None:")], "C03:7", "fail"),
    ("find hints: IfExp branches swapped (the missing hint becomes axisp1)", "breaking", "mofun/mofun.py",
     [('axisp1_idx = axisp2_idx if axisp1_idx is None else axisp1_idx', "axisp1_idx = axisp1_idx if axisp1_idx is None else axisp2_idx")], "C03:7", "fail"),
    ("find hints: farthest from axisp2_idx instead of axisp1_idx", "breaking", "mofun/mofun.py",
     [("axisp2_idx = np.argmax(p_ss[axisp1_idx, :])", "axisp2_idx = np.argmax(p_ss[axisp2_idx, :])")], "C03:7", "fail"),
    ("find hints: IfExp written with `is not None`   (EQUIVALENT)", "neutral", "mofun/mofun.py",
     [('axisp1_idx = axisp2_idx if axisp1_idx is None else axisp1_idx', "axisp1_idx = axisp1_idx if axisp1_idx is not None else axisp2_idx")], "C03:7", "pass"),
    ("find key: sorted() dropped", "breaking", "mofun/mofun.py",
     [('key=lambda m: tuple(sorted([near_indices[i] % len(structure) for i in m]))', "key=lambda m: tuple([near_indices[i] % len(structure) for i in m])")], "C02:7", "fail"),
    ("find key: modulo dropped (images of one atom group get different keys)", "breaking", "mofun/mofun.py",
     [('key=lambda m: tuple(sorted([near_indices[i] % len(structure) for i in m]))', "key=lambda m: tuple(sorted([near_indices[i] for i in m]))")], "C02:7", "fail"),
    ("find key: sorted(…, reverse=True)", "breaking", "mofun/mofun.py",
     [('key=lambda m: tuple(sorted([near_indices[i] % len(structure) for i in m]))', "key=lambda m: tuple(sorted([near_indices[i] % len(structure) for i in m], reverse=True))")], "C02:7", "fail"),
    ("find key: comprehension variable renamed   (EQUIVALENT)", "neutral", "mofun/mofun.py",
     [('key=lambda m: tuple(sorted([near_indices[i] % len(structure) for i in m]))', "key=lambda m: tuple(sorted([near_indices[k] % len(structure) for k in m]))")], "C02:7", "pass"),
    ("remove_duplicates: matches[0] -> matches[1]", "breaking", "mofun/helpers.py",
     [('        return [matches[0] for _, matches in keyed_tuples.items()]\n', "        return [matches[1] for _, matches in keyed_tuples.items()]\n")], "C02:7", "fail"),
    ("remove_duplicates: pick-first returns the keys", "breaking", "mofun/helpers.py",
     [('        return [matches[0] for _, matches in keyed_tuples.items()]\n', "        return [k for k, matches in keyed_tuples.items()]\n")], "C02:7", "fail"),
    ("remove_duplicates: names changed   (EQUIVALENT)", "neutral", "mofun/helpers.py",
     [('        return [matches[0] for _, matches in keyed_tuples.items()]\n', "        return [ms[0] for _k, ms in keyed_tuples.items()]\n")], "C02:7", "pass"),
    ("find result: the reported tuple is sorted", "breaking", "mofun/mofun.py",
     [('match_index_tuples_in_uc = [tuple([near_indices[m] % len(structure) for m in match]) for match in good_match_index_tuples]', "match_index_tuples_in_uc = [tuple(sorted([near_indices[m] % len(structure) for m in match])) for match in good_match_index_tuples]")], "C01:7", "fail"),
    ("find result: near-list position instead of near_indices[m]", "breaking", "mofun/mofun.py",
     [('match_index_tuples_in_uc = [tuple([near_indices[m] % len(structure) for m in match]) for match in good_match_index_tuples]', "match_index_tuples_in_uc = [tuple([m % len(structure) for m in match]) for match in good_match_index_tuples]")], "C01:7", "fail"),
    ("find result: the first chosen candidate is dropped", "breaking", "mofun/mofun.py",
     [('match_index_tuples_in_uc = [tuple([near_indices[m] % len(structure) for m in match]) for match in good_match_index_tuples]', "match_index_tuples_in_uc = [tuple([near_indices[m] % len(structure) for m in match]) for match in good_match_index_tuples[1:]]")], "C01:7", "fail"),
    ("find result: variables renamed   (EQUIVALENT)", "neutral", "mofun/mofun.py",
     [('match_index_tuples_in_uc = [tuple([near_indices[m] % len(structure) for m in match]) for match in good_match_index_tuples]', "match_index_tuples_in_uc = [tuple([near_indices[k] % len(structure) for k in t]) for t in good_match_index_tuples]")], "C01:7", "pass"),
    # ---- leaving the subset
    ("max_bond_length: while loop added (outside the subset)", "unsupported", "mofun/detect_bonds.py",
     [('    """Return the maximum length of a bond between two elements"""\n', '    while False:\n        pass\n')], "C17", "Unsupported"),
]

_IMPORT = re.compile(r"^import\s+(\S+)\s*$", re.M)


def _uses_code(mod, seen):
    """does module `mod` (MofunModel.…) import the generated Code.lean, directly or through such a module"""
    if mod == "MofunModel.Generated.Code":
        return True
    if mod in seen:
        return seen[mod]
    seen[mod] = False
    p = os.path.join(core.LEAN, *mod.split(".")) + ".lean"
    if mod.startswith(("MofunModel.Proofs.", "MofunModel.Props.")) and os.path.exists(p):
        seen[mod] = any(_uses_code(m, seen) for m in _IMPORT.findall(open(p).read()))
    return seen[mod]


def scratch_file(ids, code_text):
    """one Lean file = generated Code.lean + the lemma files that depend on it + the Props files, imports merged"""
    seen, order = {}, []

    def visit(mod):
        if mod in order or mod == "MofunModel.Generated.Code" or not _uses_code(mod, seen):
            return
        for m in _IMPORT.findall(open(os.path.join(core.LEAN, *mod.split(".")) + ".lean").read()):
            visit(m)
        order.append(mod)
    for i in ids:
        # `C04` names Props/C04Code.lean, `C04:5` names Props/C04Code5.lean (the files of the fifth batch)
        visit_props = "MofunModel.Props.%sCode%s" % tuple((i + ":").split(":")[:2])
        for m in _IMPORT.findall(open(os.path.join(core.LEAN, *visit_props.split(".")) + ".lean").read()):
            visit(m)
        order.append(visit_props)
    parts = [code_text] + [open(os.path.join(core.LEAN, *m.split(".")) + ".lean").read() for m in order]
    own = set(order) | {"MofunModel.Generated.Code"}
    imports = []
    for p in parts:
        for m in _IMPORT.findall(p):
            if m not in own and m not in imports:
                imports.append(m)
    body = "\n".join(_IMPORT.sub("", p) for p in parts)
    return "".join("import %s\n" % m for m in imports) + body


def theorem_at(lines, lineno):
    for i in range(min(lineno, len(lines)) - 1, -1, -1):
        m = re.match(r"\s*(theorem|example|def)\s+(\S+)?", lines[i])
        if m:
            return (m.group(2) or "example") if m.group(1) != "example" else "example@%d" % (i + 1)
    return "?"


def run_one(name, kind, file, edits, ids, expect):
    shutil.rmtree(COPY, ignore_errors=True)
    shutil.rmtree(SCRATCH, ignore_errors=True)
    subprocess.run(["rsync", "-a", "--exclude", ".git", "/repo/", COPY + "/"], check=True)
    if file:
        p = os.path.join(COPY, file)
        s = open(p).read()
        for old, new in edits:
            if s.count(old) != 1:
                return "%-70s MUTATION-DID-NOT-APPLY (%d occurrences of %r)" % (name, s.count(old), old[:40])
            s = s.replace(old, new)
        open(p, "w").write(s)
    try:
        gen_code.regenerate(COPY, out_dir=SCRATCH)
    except gen_code.Unsupported as e:
        return "%-70s [%s] translator: Unsupported(%s)  -> proof side broken, as for an unparsable table" % (name, kind, str(e)[:110])
    code = open(os.path.join(SCRATCH, "Code.lean")).read()
    real = open(os.path.join(core.LEAN, "MofunModel", "Generated", "Code.lean")).read()
    ids = ids.split()
    text = scratch_file(ids, code)
    f = os.path.join(SCRATCH, "Scratch.lean")
    open(f, "w").write(text)
    r = subprocess.run(["lake", "env", "lean", f], cwd=core.LEAN, stdout=subprocess.PIPE, stderr=subprocess.STDOUT, text=True)
    lines = text.split("\n")
    bad = []
    for m in re.finditer(r"Scratch\.lean:(\d+):\d+: error", r.stdout):
        t = theorem_at(lines, int(m.group(1)))
        if t not in bad:
            bad.append(t)
    verdict = "all equivalence theorems elaborate" if r.returncode == 0 else "NO LONGER ELABORATE: " + ", ".join(bad)
    return "%-70s [%s] generated text %s; %s" % (name, kind, "unchanged" if code == real else "differs", verdict)


def main():
    sel = sys.argv[1:]
    try:
        for m in MUTATIONS:
            if sel and not any(s in m[0] for s in sel):
                continue
            print(run_one(*m), flush=True)
    finally:
        shutil.rmtree(COPY, ignore_errors=True)
        shutil.rmtree(SCRATCH, ignore_errors=True)


if __name__ == "__main__":
    sys.exit(main())
