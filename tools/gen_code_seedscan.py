#!/venv/bin/python
"""Apply every seeded/*/patch.diff to a scratch copy of /repo, regenerate the code translation into a scratch directory and report, for the patches that change a generated definition, which equivalence theorems no longer elaborate (or that the translator raises Unsupported).  Validation of the machinery only; touches neither /repo nor Generated/Code.lean."""
import sys, os, subprocess, shutil, re, glob
sys.path.insert(0,'/verif/tools'); sys.path.insert(0,'/verif')
import gen_code_selftest as T
from harness import core, gen_code
real = open(os.path.join(core.LEAN,"MofunModel","Generated","Code.lean")).read()
ALL = "C17 C19 C18 C09 C14 C10 C02 C20 C11 C03 C12 C13 C15 C16 C01".split()
for d in sorted(glob.glob("/verif/seeded/*")):
    pf = os.path.join(d,"patch.diff")
    if not os.path.exists(pf): continue
    shutil.rmtree(T.COPY, ignore_errors=True); shutil.rmtree(T.SCRATCH, ignore_errors=True)
    subprocess.run(["rsync","-a","--exclude",".git","/repo/",T.COPY+"/"],check=True)
    r = subprocess.run(["patch","-p1","-s","-i",pf],cwd=T.COPY,stdout=subprocess.PIPE,stderr=subprocess.STDOUT,text=True)
    if r.returncode != 0:
        print(os.path.basename(d), "PATCH-DOES-NOT-APPLY"); continue
    try:
        gen_code.regenerate(T.COPY, out_dir=T.SCRATCH)
    except gen_code.Unsupported as e:
        print(os.path.basename(d), "Unsupported:", str(e)[:150]); continue
    code = open(T.SCRATCH+"/Code.lean").read()
    if code == real: continue
    # which generated defs differ
    def defs(t): return dict(re.findall(r"^def (\w+)(.*?)(?=^/--|\Z)", t, re.S|re.M) and [(m.group(1), m.group(0)) for m in re.finditer(r"^def (\w+).*?(?=^/--|^end |\Z)", t, re.S|re.M)])
    a, b = defs(real), defs(code)
    diff = [k for k in b if a.get(k) != b[k]]
    text = T.scratch_file(ALL, code)
    f = T.SCRATCH+"/Scratch.lean"; open(f,"w").write(text)
    rr = subprocess.run(["lake","env","lean",f],cwd=core.LEAN,stdout=subprocess.PIPE,stderr=subprocess.STDOUT,text=True)
    lines = text.split("\n"); bad=[]
    for m in re.finditer(r"Scratch\.lean:(\d+):\d+: error", rr.stdout):
        t = T.theorem_at(lines, int(m.group(1)))
        if t not in bad: bad.append(t)
    print(os.path.basename(d), "generated defs changed:", diff, "->", ("BROKEN: "+", ".join(bad)) if rr.returncode else "all theorems still elaborate")
shutil.rmtree(T.COPY, ignore_errors=True); shutil.rmtree(T.SCRATCH, ignore_errors=True)
