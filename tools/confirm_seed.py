#!/venv/bin/python
"""Confirm an independently written breaking change and store it under /verif/seeded/<name>/.
usage: tools/confirm_seed.py /tmp/seedout_C11/change_1 C11 [name]
Confirms, in a scratch copy of /repo (deleted afterwards): the patch applies; the pinned tests still pass with it;
the demo exits 0 without the change and non-zero with it."""
import json
import os
import shutil
import subprocess
import sys
import tempfile

PY = "/venv/bin/python"

def run(cmd, cwd, env=None):
    return subprocess.run(cmd, cwd=cwd, env=env, stdout=subprocess.PIPE, stderr=subprocess.STDOUT, text=True)

def main():
    src, prop = sys.argv[1], sys.argv[2]
    name = sys.argv[3] if len(sys.argv) > 3 else "%s-%s" % (prop, os.path.basename(src.rstrip("/")).replace("change_", "s"))
    d = tempfile.mkdtemp(prefix="mofun_seed_")
    meta = {"property": prop, "name": name, "source": "independent sub-agent given only the property text and a scratch worktree"}
    try:
        subprocess.run(["rsync", "-a", "--exclude", ".git", "/repo/", d + "/"], check=True)
        env = dict(os.environ, PYTHONPATH=d)
        env.pop("MOFUN_VERIF", None)
        shutil.copy(os.path.join(src, "demo.py"), os.path.join(d, "demo_seed.py"))
        r0 = run([PY, "demo_seed.py"], d, env)
        meta["demo_exit_without_change"] = r0.returncode
        p = run(["patch", "-p1", "-s", "-i", os.path.abspath(os.path.join(src, "patch.diff"))], d)
        meta["patch_applies"] = p.returncode == 0
        t = run([PY, "-m", "pytest", "-q", "-p", "no:cacheprovider", "--timeout=900"], d, env)
        meta["tests_with_change"] = t.stdout.strip().split("\n")[-1]
        r1 = run([PY, "demo_seed.py"], d, env)
        meta["demo_exit_with_change"] = r1.returncode
        meta["demo_output_with_change"] = r1.stdout[-600:]
        notes = os.path.join(src, "notes.txt")
        meta["needs_to_manifest"] = open(notes).read()[:3000] if os.path.exists(notes) else ""
        ok = meta["patch_applies"] and r0.returncode == 0 and r1.returncode != 0 and " passed" in meta["tests_with_change"] and "failed" not in meta["tests_with_change"]
        meta["confirmed"] = bool(ok)
        meta["ran"] = ["demo.py on a clean copy of /repo (exit %d)" % r0.returncode, "patch -p1 < patch.diff",
                       "pytest -q --timeout=900 with the change: " + meta["tests_with_change"], "demo.py with the change (exit %d)" % r1.returncode]
        print(json.dumps({k: meta[k] for k in ("name", "confirmed", "patch_applies", "tests_with_change", "demo_exit_without_change", "demo_exit_with_change")}))
        if ok:
            out = os.path.join(os.path.dirname(os.path.dirname(os.path.abspath(__file__))), "seeded", name)
            os.makedirs(out, exist_ok=True)
            shutil.copy(os.path.join(src, "patch.diff"), os.path.join(out, "patch.diff"))
            shutil.copy(os.path.join(src, "demo.py"), os.path.join(out, "demo.py"))
            json.dump(meta, open(os.path.join(out, "meta.json"), "w"), indent=1)
    finally:
        shutil.rmtree(d, ignore_errors=True)

if __name__ == "__main__":
    main()
